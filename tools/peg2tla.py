#!/usr/bin/env python3
"""Prototype: translate pointlander/peg grammar (subset used by jsonpath.peg) to a TLA+ module."""
import sys, re

src = open(sys.argv[1], encoding='utf-8').read()

class P:
    def __init__(s, t): s.t=t; s.i=0; s.actions=[]
    def eof(s): return s.i>=len(s.t)
    def peek(s,n=1): return s.t[s.i:s.i+n]
    def ws(s):
        while not s.eof():
            c=s.t[s.i]
            if c in ' \t\r\n': s.i+=1
            elif c=='#':
                while not s.eof() and s.t[s.i]!='\n': s.i+=1
            else: break
    def ident(s):
        m=re.compile(r'[A-Za-z_][A-Za-z_0-9]*').match(s.t,s.i)
        if not m: return None
        return m.group(0)
    def header(s):
        s.ws()
        assert s.peek(7)=='package'; s.i+=7; s.ws(); s.i+=len(s.ident()); s.ws()
        assert s.peek(4)=='type'; s.i+=4; s.ws(); s.i+=len(s.ident()); s.ws()
        assert s.peek(3)=='Peg'; s.i+=3; s.ws()
        s.action_block()
    def action_block(s):
        assert s.t[s.i]=='{'
        depth=0; j=s.i
        # naive brace matching that respects Go strings/backquotes/runes
        while True:
            c=s.t[j]
            if c=='{': depth+=1
            elif c=='}':
                depth-=1
                if depth==0: break
            elif c=='`':
                j=s.t.index('`',j+1)
            elif c=='"':
                j+=1
                while s.t[j]!='"':
                    if s.t[j]=='\\': j+=1
                    j+=1
            elif c=="'":
                j+=1
                while s.t[j]!="'":
                    if s.t[j]=='\\': j+=1
                    j+=1
            j+=1
        body=s.t[s.i+1:j]; s.i=j+1; s.ws(); return body
    def grammar(s):
        s.header(); rules=[]
        while not s.eof():
            name=s.ident(); s.i+=len(name); s.ws()
            assert s.peek(2)=='<-', (name, s.peek(10)); s.i+=2; s.ws()
            rules.append((name, s.expression()))
        return rules
    def expression(s):
        alts=[s.sequence()]
        while s.peek()=='/':
            s.i+=1; s.ws(); alts.append(s.sequence())
        return alts[0] if len(alts)==1 else ('alt',alts)
    def at_rule_start(s):
        m=re.compile(r'[A-Za-z_][A-Za-z_0-9]*\s*<-').match(s.t,s.i)
        return m is not None
    def sequence(s):
        items=[]
        while not s.eof() and s.peek() not in '/)>' and not s.at_rule_start():
            items.append(s.prefix())
        if len(items)==0: return ('seq',[])
        return items[0] if len(items)==1 else ('seq',items)
    def prefix(s):
        c=s.peek()
        if c=='&': s.i+=1; s.ws(); return ('and', s.suffix())
        if c=='!': s.i+=1; s.ws(); return ('not', s.suffix())
        return s.suffix()
    def suffix(s):
        e=s.primary()
        while s.peek() in ('?','*','+') and s.peek()!='':
            c=s.peek(); s.i+=1; s.ws()
            e=({'?':'opt','*':'star','+':'plus'}[c], e)
        return e
    def char(s, closers):
        c=s.t[s.i]
        if c=='\\':
            n=s.t[s.i+1]
            simple={'a':7,'b':8,'e':27,'f':12,'n':10,'r':13,'t':9,'v':11,"'":39,'"':34,'[':91,']':93,'-':45,'\\':92}
            if n=='0' and s.t[s.i+2] in 'xX':
                m=re.compile(r'[0-9a-fA-F]+').match(s.t,s.i+3); s.i=m.end(); return int(m.group(0),16)
            if n in simple: s.i+=2; return simple[n]
            m=re.compile(r'[0-3][0-7][0-7]|[0-7][0-7]?').match(s.t,s.i+1)
            if m: s.i=m.end(); return int(m.group(0),8)
            raise Exception('bad escape at %d: %r'%(s.i,s.t[s.i:s.i+6]))
        s.i+=1; return ord(c)
    def primary(s):
        c=s.peek()
        if c=='(':
            s.i+=1; s.ws(); e=s.expression(); assert s.peek()==')', s.t[s.i:s.i+20]; s.i+=1; s.ws(); return e
        if c=='<':
            s.i+=1; s.ws(); e=s.expression(); assert s.peek()=='>'; s.i+=1; s.ws(); return ('cap',e)
        if c=='{':
            body=s.action_block(); s.actions.append(body); return ('act',len(s.actions)-1)
        if c=='.':
            s.i+=1; s.ws(); return ('any',)
        if c=="'":
            s.i+=1; cps=[]
            while s.t[s.i]!="'": cps.append(s.char("'"))
            s.i+=1; s.ws(); return ('lit',cps)
        if c=='"':
            raise Exception('double-quoted literal unsupported')
        if c=='[':
            s.i+=1; neg=False
            if s.t[s.i]=='^': neg=True; s.i+=1
            rs=[]
            while s.t[s.i]!=']':
                lo=s.char(']')
                if s.t[s.i]=='-' and s.t[s.i+1]!=']':
                    s.i+=1; hi=s.char(']'); rs.append((lo,hi))
                else: rs.append((lo,lo))
            s.i+=1; s.ws(); return ('cls',neg,rs)
        name=s.ident(); assert name, s.t[s.i:s.i+30]; s.i+=len(name); s.ws(); return ('nt',name)

def tla(e):
    k=e[0]
    if k in('alt','seq'): return '[k |-> "%s", es |-> <<%s>>]'%(k, ', '.join(tla(x) for x in e[1]))
    if k in('opt','star','plus','not','and','cap'): return '[k |-> "%s", e |-> %s]'%(k, tla(e[1]))
    if k=='act': return '[k |-> "act", id |-> %d]'%e[1]
    if k=='any': return '[k |-> "any"]'
    if k=='lit': return '[k |-> "lit", s |-> <<%s>>]'%', '.join(map(str,e[1]))
    if k=='cls': return '[k |-> "cls", neg |-> %s, rs |-> <<%s>>]'%('TRUE' if e[1] else 'FALSE', ', '.join('<<%d, %d>>'%r for r in e[2]))
    if k=='nt': return '[k |-> "nt", n |-> "%s"]'%e[1]
    raise Exception(k)

p=P(src); rules=p.grammar()
out=['---- MODULE Grammar ----','\\* GENERATED from jsonpath.peg; do not edit','StartRule == "%s"'%rules[0][0],'Rule(n) ==','  CASE '+'\n    [] '.join('n = "%s" -> %s'%(n,tla(e)) for n,e in rules),'NumActions == %d'%len(p.actions),'====']
open(sys.argv[2],'w').write('\n'.join(out)+'\n')
import json
def js(e):
    k=e[0]
    if k in('alt','seq'): return {'k':k,'es':[js(x) for x in e[1]]}
    if k in('opt','star','plus','not','and','cap'): return {'k':k,'e':js(e[1])}
    if k=='act': return {'k':'act','id':e[1]}
    if k=='any': return {'k':'any'}
    if k=='lit': return {'k':'lit','s':e[1]}
    if k=='cls': return {'k':'cls','neg':e[1],'rs':[list(r) for r in e[2]]}
    if k=='nt': return {'k':'nt','n':e[1]}
bounds=set()
def walk(e):
    k=e[0]
    if k in('alt','seq'):
        for x in e[1]: walk(x)
    elif k in('opt','star','plus','not','and','cap'): walk(e[1])
    elif k=='lit':
        for c in e[1]: bounds.update([c-1,c,c+1])
    elif k=='cls':
        for lo,hi in e[2]: bounds.update([lo-1,lo,hi,hi+1])
for _,e in rules: walk(e)
bounds={b for b in bounds if 0<=b<0x110000 and not (0xD800<=b<=0xDFFF)}
if len(sys.argv)>3:
    json.dump({'start':rules[0][0],'rules':{n:js(e) for n,e in rules},'actions':p.actions,'boundaries':sorted(bounds)}, open(sys.argv[3],'w'))
print(len(rules),'rules',len(p.actions),'actions',len(bounds),'boundary code points')
