#!/usr/bin/env python3
"""Regenerates MANIFEST.json from the table below (kept in one place so it stays valid)."""
import json, os, subprocess
V = os.path.dirname(os.path.dirname(os.path.abspath(__file__)))
ALL = ['C%02d' % i for i in range(1, 21)]

CLAIMED = {
 'C01': ('TLC-enumerated (document, path) cases (Gen_Select, Gen_Slice) replayed into the real library and compared with the TLA+ reference semantics Select/Response; traces of random and repository-corpus retrievals validated by Trace_Eval (text -> Peg -> Actions -> Select)',
         'Exhaustive within the small scope (all ordered pairs of step kinds, each also after `..`, quick; triples and trailing functions, thorough), both decode modes; sampled beyond it (direction B).', '6 C01'),
 'C02': ('TLA+ parser model (Peg over the grammar generated from jsonpath.peg + the 46 actions) with invariants Documented/StackOK and CmpNormalize liveness; token soup and rendered sentences enumerated by TLC and parsed by the real library in crash-isolated workers; random/mutated/stress strings recorded and validated by Trace_Parse',
         'Shape of every Parse outcome, no panic, no process death, no call longer than 3 s, for all enumerated and sampled strings up to 256 characters, three configurations.', '6 C02'),
 'C03': ('TLC-enumerated cases (Gen_Select, Gen_Slice magnitudes) replayed; response shape and error class checked under recover in crash-isolated workers; recorded random evaluations incl. numbers beyond float64/int64; the filter atoms of Gen_Filter (every operator x operand form x order, deep-equality scope) with a totality-only oracle; documents assembled from shared parts',
         'Every enumerated/sampled (path, document) returns (non-empty, nil) xor (nil, documented runtime error); FunctionFailed only when a model function failed.', '6 C03'),
 'C04': ('TLC-enumerated cases replayed with a structural snapshot of the document before/after every call; same assertion on every recorded random evaluation; the document of the previous call re-checked before and after every call; documents holding typed Go containers (Gen_Opaque) in plain and accessor mode',
         'Snapshot comparison on every case, success or failure, both decode modes, also in accessor mode without Set.', '6 C04'),
 'C05': ('TLA+ L2 models FilterProtoHist (heap of list cells persists across calls: TreeImmutable, CallIsPure) and Conc with one goroutine (ResultsPrivate, BufferPrivacy); TLC-enumerated histories (Gen_History: one parsed function x sequences of call/scribble/unrelated over documents that flip filter outcomes and cross slice-growth boundaries) replayed on ONE real parsed function, the same document object evaluated again when the history names it again',
         'Every call compared with the specification response and with a fresh Retrieve; every earlier result slice re-read after every later operation; all histories of <= 3 operations x 22 kill-query functions x 7 documents (quick).', '6 C05'),
 'C06': ('TLA+ Conc (goroutines x critical sections: mutex, pool get/put, tree access) model-checked for MutualExclusion / BufferPrivacy / ResultsPrivate / NoRace / termination over all interleavings of 2-3 goroutines; Sched.tla (Conc at the granularity of recorded hook events) generates release schedules that the gate scheduler forces on the real library (hooks, build tag verif); free-running goroutines under the Go race detector with results compared to sequential results; recorded hook traces validated by Trace_Conc',
         'Interleavings at critical-section granularity are enumerated/sampled by TLC and forced; inside a section the race detector is relied upon; schedules of the Go scheduler are sampled, not enumerated.', '6 C06'),
 'C07': ('TLA+ KeyLess order (lemma: UTF-8 byte order = code point order) over all 2..5-key subsets of a pool separating byte/UTF-16/length orders (6..12 keys simulated); each case evaluated 32 times on 4 independently built maps interleaved with pool-recycling decoys',
         'Every evaluation must return the specification sequence; >= 64 evaluations per key-set size are counted in the evidence.', '6 C07'),
 'C08': ('TLA+ law Compose model-checked on Select; the same law checked oracle-free on the real library (three retrievals per split, union and recursive-descent corollaries)',
         'Every split point of every enumerated path; Q restricted as the property states.', '6 C08'),
 'C09': ('TLA+ FilterProto (the value-list protocol refines per-member Boolean logic, 38k states quick / 6.8M thorough) and the laws LawBoolean/LawNe/LawMirror/LawLe model-checked on Holds; every enumerated (container, query) checked on the real library: intersection/union/complement/mirror/le-is-lt-or-eq relations between real selections, and the selection against Holds, on fresh parsed functions and on ones used before on another document; deep-equality scope (containers and zero values on both sides of path == path)',
         'All atoms (six operators x operand kinds x orders, literals of every type, regex, existence) and all pairs of 15 representative atoms over containers of <= 2 distinct members (arrays and objects).', '6 C09'),
 'C10': ('TLA+ Holds is type-strict (LawTypeStrict model-checked); every enumerated comparison filter evaluated on the document decoded as float64, json.Number and json.Number with two other spellings: same members selected, equal to the specification; deep-equality scope; decode-mode parity on recorded random evaluations (Trace_Eval)',
         'All comparison atoms over members of every JSON type.', '6 C10'),
 'C11': ('TLA+ Slice: mechanism (two implementations, normalise, guarded loop) = Python definition, in range, monotone, for all start/end/step in {omitted} U [-7..7] U five boundary magnitudes x lengths 0..6; every slice and index replayed on the real library',
         'Exhaustive over the stated space (64 974 states) in the quick tier.', '6 C11'),
 'C12': ('TLC-enumerated cases (paths with trailing and in-filter functions) evaluated once per accessor mode with identical recording function sets; Gen_Config (the Config object as a state machine: Set* calls in every order, before and after Parse) replayed on real Configs', 'Parity of length, Get() values, errors and function call logs on every enumerated case.', '6 C12'),
 'C13': ('TLA+ locations (Select.loc, invariant LocsExact) replayed: Set a sentinel through every accessor on a fresh copy and diff the document against Put(doc, loc, v); Get liveness; Set == nil exactly for non-locations (also after functions); Gen_AccHist: the accessors of one retrieval as a state machine (Set / direct update / unrelated accessor-mode retrievals), every accessor read after every step',
         'Every result index of every enumerated successful case.', '6 C13'),
 'C14': ('TLA+ CallLog (Stages) compared with the recorded argument logs of the harness functions for every enumerated path x function sequence', 'Per function: every selected value once, in order; aggregates once with all values.', '6 C14'),
 'C15': ('TLA+ Failure set (deepest step, missing member preferred) compared with the real error type, path text, expected kind and found type; also on recorded random evaluations via Trace_Eval',
         'Exact for single-valued paths, set membership for multi-branch paths.', '6 C15'),
 'C16': ('TLA+ Unescape/Render/Grammar: Parse(Spell(k)) = name(k) for four spellings of every key over a class-representative alphabet (model-checked with Peg+Actions); each key retrieved by the real library in six positions among near-miss siblings',
         'All keys of <= 2 atoms (full alphabet) and <= 3 atoms (reduced), longer keys simulated.', '6 C16'),
 'C17': ('translation validation of jsonpath.peg.go against jsonpath.peg: TLC interprets the generated Grammar.tla (Peg + Actions); acceptance, error class, position, reason, argument texts compared with the real Parse on token soup (direction A) and on recorded grammar-walk / mutated / invalid-UTF-8 strings (Trace_Parse); near checked against the rest of the path',
         'Every enumerated and sampled string.', '6 C17'),
 'C18': ('TLA+ Render under 9 spelling vectors; model-level RoundTrip (Gen_RoundTrip: ParseModel(Render(a, sp)) = a for all 64 vectors); each enumerated case evaluated under every spelling and compared with the canonical one',
         'Values equal, or errors of the same type at the same step.', '6 C18'),
 'C19': ('TLA+ Conc (one goroutine): ResidueFree -- no Parse starts on the residue of an earlier one, also after a panic half-way; TLC-enumerated Parse histories (Gen_ParseHist) over a pool of (path, config) pairs aborting at every action, also inside filter operands; each outcome compared with ParseModel/Response and with the same call made first in a fresh process; Config modified after Parse; Gen_Config state machine replayed on real Configs',
         'All histories of <= 3 calls over 27 (path, config) pairs (quick).', '6 C19'),
 'C20': ('TLA+ opaque values in Select/Holds (Gen_Opaque: leaves replaced by values of 20 Go types chosen by TLC) replayed with the exact-response, shape, snapshot, accessor-parity, call-log and error oracles',
         'All one-step paths x all types, two-step paths x six representative types (quick).', '6 C20'),
}
PENDING = {
}
NOTE = 'TLC and the TLA+ modules in /verif/spec are trusted; the Go harness converts model values; bounded scope.'

def main():
    checks = []
    for pid in ALL:
        if pid not in CLAIMED:
            continue
        tech, text, ref = CLAIMED[pid]
        checks.append({
            'property_id': pid,
            'quick_cmd': 'tools/check %s quick' % pid,
            'thorough_cmd': 'tools/check %s thorough' % pid,
            'evidence_file': '/verif/evidence/%s.json' % pid,
            'replay_cmd_template': 'tools/check replay {path}',
            'engine': 'tlc+replay',
            'level_claimed': {'category': 'model_checking', 'text': text, 'design_ref': 'DESIGN.md section ' + ref},
            'level_note': NOTE,
            'technique': 'explicit TLA+ specification model-checked with TLC; conformance: ' + tech,
        })
    hooks = []
    try:
        out = subprocess.run(['git', '-C', '/repo', 'log', '--format=%H %s'], capture_output=True, text=True).stdout
        hooks = [l.split()[0] for l in out.splitlines() if ' verif-hook:' in l or l.split(' ', 1)[1].startswith('verif:')]
    except Exception:
        pass
    m = {
        'version': 1,
        'setup_cmd': 'tools/setup',
        'hooks': {
            'guard': 'verif',
            'enable': 'go build -tags verif (the harness module replaces github.com/AsaiYusuke/jsonpath => /repo)',
            'baseline_off_cmd': 'cd /repo && GOFLAGS=-mod=mod GOPROXY=off GOSUMDB=off GOTOOLCHAIN=local go test -vet=off -count=1 -timeout 25m ./...',
            'source_commits': hooks,
            'add_only': True,
        },
        'engines': [{'name': 'tlc+replay', 'path': 'tools/check', 'serves_properties': sorted(CLAIMED),
                     'kind_free_text': 'TLA+ specification (spec/*.tla) checked by TLC; TLC-printed cases/behaviours replayed into the real library by harness/ (Go), traces of the real library validated by TLC'}],
        'checks': checks,
        'not_applicable': [{'property_id': p, 'reason': PENDING.get(p, 'not yet claimed')} for p in ALL if p not in CLAIMED],
        'notes': 'See DESIGN.md. Exit 2 = infrastructure problem (no verdict).',
    }
    json.dump(m, open(os.path.join(V, 'MANIFEST.json'), 'w'), indent=1)
    print('MANIFEST.json:', len(checks), 'checks')

main()
