#!/usr/bin/env python3
"""Regenerates MANIFEST.json from the table below (kept in one place so it stays valid)."""
import json, os, subprocess
V = os.path.dirname(os.path.dirname(os.path.abspath(__file__)))
ALL = ['C%02d' % i for i in range(1, 21)]

CLAIMED = {
 'C01': ('TLC-enumerated (document, path) cases replayed into the real library; responses compared with the TLA+ reference semantics',
         'Exhaustive within the small scope (all ordered pairs of step kinds, each also after `..`, quick; triples and trailing functions, thorough), both decode modes; beyond the scope nothing is claimed.', '6 C01'),
 'C03': ('TLC-enumerated cases replayed; response shape and error class checked under recover in crash-isolated workers',
         'Every enumerated (path, document) must return (non-empty, nil) xor (nil, documented runtime error); FunctionFailed only when a model function failed.', '6 C03'),
 'C04': ('TLC-enumerated cases replayed with a structural snapshot of the document before/after every call',
         'Snapshot comparison on every enumerated case, success or failure, both decode modes.', '6 C04'),
 'C08': ('TLA+ law Compose model-checked on Select; the same law checked oracle-free on the real library (three retrievals per split, union and recursive-descent corollaries)',
         'Every split point of every enumerated path; Q restricted as the property states.', '6 C08'),
 'C12': ('TLC-enumerated cases evaluated once per accessor mode with identical recording function sets', 'Parity of length, Get() values, errors and function call logs on every enumerated case.', '6 C12'),
 'C13': ('TLA+ locations (Select.loc, invariant LocsExact) replayed: Set a sentinel through every accessor on a fresh copy and diff the document against Put(doc, loc, v)',
         'Every result index of every enumerated successful case.', '6 C13'),
 'C15': ('TLA+ Failure set (deepest step, missing member preferred) compared with the real error type, path text, expected kind and found type',
         'Exact for single-valued paths, set membership for multi-branch paths.', '6 C15'),
}
NOTE = 'TLC and the TLA+ modules in /verif/spec are trusted; the Go harness converts model values; bounded scope.'

def main():
    checks = []
    for pid in ALL:
        if pid not in CLAIMED:
            continue
        tech, text, ref = CLAIMED[pid]
        checks.append({
            'property_id': pid,
            'quick_cmd': 'tools/check %s quick' % pid,
            'thorough_cmd': 'tools/check %s thorough' % pid,
            'evidence_file': '/verif/evidence/%s.json' % pid,
            'replay_cmd_template': 'tools/check replay {path}',
            'engine': 'tlc+replay',
            'level_claimed': {'category': 'model_checking', 'text': text, 'design_ref': 'DESIGN.md section ' + ref},
            'level_note': NOTE,
            'technique': 'explicit TLA+ specification model-checked with TLC; conformance: ' + tech,
        })
    hooks = []
    try:
        out = subprocess.run(['git', '-C', '/repo', 'log', '--format=%H %s'], capture_output=True, text=True).stdout
        hooks = [l.split()[0] for l in out.splitlines() if ' verif-hook:' in l or l.split(' ', 1)[1].startswith('verif:')]
    except Exception:
        pass
    m = {
        'version': 1,
        'setup_cmd': 'tools/setup',
        'hooks': {
            'guard': 'verif',
            'enable': 'go build -tags verif (the harness module replaces github.com/AsaiYusuke/jsonpath => /repo)',
            'baseline_off_cmd': 'cd /repo && GOFLAGS=-mod=mod GOPROXY=off GOSUMDB=off GOTOOLCHAIN=local go test -vet=off -count=1 -timeout 25m ./...',
            'source_commits': hooks,
            'add_only': True,
        },
        'engines': [{'name': 'tlc+replay', 'path': 'tools/check', 'serves_properties': sorted(CLAIMED),
                     'kind_free_text': 'TLA+ specification (spec/*.tla) checked by TLC; TLC-printed cases/behaviours replayed into the real library by harness/ (Go), traces of the real library validated by TLC'}],
        'checks': checks,
        'not_applicable': [{'property_id': p, 'reason': 'check under construction in this session; not yet claimed'} for p in ALL if p not in CLAIMED],
        'notes': 'See DESIGN.md. Exit 2 = infrastructure problem (no verdict).',
    }
    json.dump(m, open(os.path.join(V, 'MANIFEST.json'), 'w'), indent=1)
    print('MANIFEST.json:', len(checks), 'checks')

main()
