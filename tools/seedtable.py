#!/usr/bin/env python3
"""seeded/RESULTS.md from the output of seedrun.sh runs (lines: <seed-id> <Cxx> rc=<n> VIOLATION ... kind=<k> path=<p>)"""
import json, os, re, sys
V = os.path.dirname(os.path.dirname(os.path.abspath(__file__)))
rows = {}
for f in sys.argv[1:]:
    for line in open(f):
        m = re.match(r'(\S+) (C\d+) rc=(\d+)(.*)', line)
        if not m:
            continue
        sid, chk, rc, rest = m.group(1), m.group(2), int(m.group(3)), m.group(4)
        k = re.search(r'kind=(\S+)', rest)
        p = re.search(r'path=(.*)$', rest)
        rows.setdefault(sid, {})[chk] = (rc, k.group(1) if k else '', (p.group(1).strip() if p else '')[:60])
out = ['# Seeded changes: which check catches which change', '',
       'Each change was written by an independent sub-agent that saw only the property text and a scratch worktree,',
       'confirmed by tools/seedverify.py (applies, builds, the repository suite passes with it, its demonstration fails',
       'with it and passes without it), then applied to /repo, checked with the QUICK tier, and undone.', '',
       '| seeded change | breaks | what it is | needs | quick check | verdict | violation kind (first) |', '|---|---|---|---|---|---|---|']
for sid in sorted(os.listdir(os.path.join(V, 'seeded'))):
    mp = os.path.join(V, 'seeded', sid, 'meta.json')
    if not os.path.exists(mp):
        continue
    m = json.load(open(mp))
    title = (m.get('title') or '').replace('|', '/')[:110]
    needs = (m.get('needs') or '').replace('|', '/').replace('\n', ' ')[:140]
    res = rows.get(sid, {})
    if m.get('retired'):
        out.append('| %s | %s | %s | %s | - | RETIRED | %s |' % (sid, m.get('breaks_property'), title, needs, m['retired'].replace('|', '/')[:200]))
        continue
    if not res:
        out.append('| %s | %s | %s | %s | (not run) | | |' % (sid, m.get('breaks_property'), title, needs))
    for chk, (rc, kind, path) in sorted(res.items()):
        verdict = {0: 'MISSED', 1: 'caught', 2: 'no verdict (exit 2)'}.get(rc, str(rc))
        out.append('| %s | %s | %s | %s | %s | %s | %s `%s` |' % (sid, m.get('breaks_property'), title, needs, chk, verdict, kind, path.replace('|', '/')))
open(os.path.join(V, 'seeded', 'RESULTS.md'), 'w').write('\n'.join(out) + '\n')
print('\n'.join(out[-45:]))
