#!/usr/bin/env python3
"""Confirms a seeded change independently and files it under /verif/seeded/<id>/.
usage: seedverify.py <out-dir> <Cxx> <N> [--race]
Checks, in a scratch worktree of /repo's HEAD (removed afterwards): the patch applies, builds, the
repository's suite passes with it, the demonstration fails with it and passes without it."""
import json, os, shutil, subprocess, sys, tempfile
ENV = dict(os.environ, GOFLAGS='-mod=mod', GOPROXY='off', GOSUMDB='off', GOTOOLCHAIN='local')
V = os.path.dirname(os.path.dirname(os.path.abspath(__file__)))

def sh(cmd, cwd, timeout=600):
    r = subprocess.run(cmd, cwd=cwd, env=ENV, shell=True, capture_output=True, text=True, timeout=timeout)
    return r.returncode, (r.stdout + r.stderr)[-3000:]

def main():
    out, pid, n = sys.argv[1], sys.argv[2], sys.argv[3]
    race = '--race' in sys.argv
    patch = os.path.join(out, 'mut%s.patch.diff' % n)
    demo = os.path.join(out, 'mut%s_demo_test.go' % n)
    meta = json.load(open(os.path.join(out, 'mut%s.meta.json' % n)))
    race = race or '-race' in meta.get('demo_cmd', '')
    wt = tempfile.mkdtemp(prefix='seedverify-')
    os.rmdir(wt)
    res = {}
    try:
        rc, o = sh('git -C /repo worktree add --detach %s HEAD -q' % wt, '/')
        assert rc == 0, o
        rc, o = sh('git apply --check %s' % patch, wt); res['applies'] = rc == 0
        if rc != 0:
            print('PATCH DOES NOT APPLY', o); return 1
        flags = '-race' if race else ''
        # without the patch: demo passes
        shutil.copy(demo, os.path.join(wt, 'zz_seed_demo_test.go'))
        rc, o = sh('go test -vet=off -count=1 %s -run "TestSeedDemo$" .' % flags, wt); res['demo_passes_without'] = rc == 0
        if rc != 0: print('demo fails WITHOUT the change:\n', o)
        os.remove(os.path.join(wt, 'zz_seed_demo_test.go'))
        sh('git apply %s' % patch, wt)
        rc, o = sh('go build ./... && go test -vet=off -count=1 ./...', wt); res['suite_passes_with'] = rc == 0
        if rc != 0: print('suite fails with the change:\n', o)
        shutil.copy(demo, os.path.join(wt, 'zz_seed_demo_test.go'))
        fails = 0
        for i in range(3 if race else 1):
            rc, o = sh('go test -vet=off -count=1 %s -run "TestSeedDemo$" .' % flags, wt)
            fails += rc != 0
        res['demo_fails_with'] = fails > 0
        res['demo_fail_runs'] = '%d/%d' % (fails, 3 if race else 1)
        if fails == 0: print('demo PASSES with the change')
        else: res['demo_output_tail'] = o[-600:]
    finally:
        sh('git -C /repo worktree remove --force %s' % wt, '/')
        shutil.rmtree(wt, ignore_errors=True)
    ok = all(res.get(k) for k in ('applies', 'demo_passes_without', 'suite_passes_with', 'demo_fails_with'))
    print(pid, n, 'CONFIRMED' if ok else 'REJECTED', {k: v for k, v in res.items() if k != 'demo_output_tail'})
    if ok:
        d = os.path.join(V, 'seeded', '%s-m%s' % (pid, n))
        os.makedirs(d, exist_ok=True)
        shutil.copy(patch, os.path.join(d, 'patch.diff'))
        shutil.copy(demo, os.path.join(d, 'demo_test.go.txt'))
        meta['breaks_property'] = pid
        meta['confirmed'] = res
        meta['confirmed_how'] = 'tools/seedverify.py in a scratch worktree of /repo HEAD: git apply --check; go build + full suite with the change; demo (go test %s -run TestSeedDemo) fails with the change and passes without it' % flags
        meta['needs_race_detector'] = race
        json.dump(meta, open(os.path.join(d, 'meta.json'), 'w'), indent=1)
    return 0 if ok else 1

sys.exit(main())
