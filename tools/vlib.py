"""Driver for the per-property checks (see DESIGN.md section 9).

  tools/check <Cxx> quick|thorough      run the check, write evidence/<Cxx>.json
  tools/check replay <replay.json>      re-run one recorded violating case
  tools/check build                     (re)build the harness from /repo's working tree

exit 0 = held on everything explored; 1 = VIOLATION (line on stdout); 2 = infrastructure problem
"""
import json, os, re, shutil, subprocess, sys, tempfile, time, hashlib

VERIF = os.path.dirname(os.path.dirname(os.path.abspath(__file__)))
REPO = os.environ.get('VERIF_REPO', '/repo')
# one build directory per invocation: checks of different properties (or against different checkouts) may run
# at the same time and must never pick up each other's harness binary
BUILD = os.path.join(VERIF, '.build', 'p%d' % os.getpid())
import atexit
atexit.register(lambda: shutil.rmtree(BUILD, ignore_errors=True))
# deep recursion of the PEG interpreter on 256-character inputs needs a big Java thread stack
os.environ['JAVA_TOOL_OPTIONS'] = (os.environ.get('JAVA_TOOL_OPTIONS', '') + ' -Xss512m').strip()
ENV = dict(os.environ, GOFLAGS='-mod=mod', GOPROXY='off', GOSUMDB='off', GOTOOLCHAIN='local',
           CGO_ENABLED=os.environ.get('CGO_ENABLED', '1'))
SEED = int(os.environ.get('VERIF_SEED', '1') or 1)
NCPU = os.cpu_count() or 4


def _tlc_command():
    """`tlc` is a shell wrapper around `java ... tlc2.TLC`; the Java MAIN thread only gets a big stack when -Xss is on
    the java command line (JAVA_TOOL_OPTIONS reaches the other threads only), and TLC evaluates constant definitions --
    here: the PEG interpreter on whole pools of paths -- in the main thread.  So call java directly with the wrapper's
    class path."""
    try:
        w = open(shutil.which('tlc')).read()
        m = re.search(r'-cp\s+(\S+)\s+tlc2\.TLC', w)
        if m:
            return ['java', '-Xss512m', '-XX:+UseParallelGC', '-cp', m.group(1), 'tlc2.TLC']
    except Exception:
        pass
    return ['tlc']


TLC = _tlc_command()


class Infra(Exception):
    pass


def log(*a):
    print(*a, file=sys.stderr, flush=True)


def build(race=False):
    os.makedirs(BUILD, exist_ok=True)
    h = os.path.join(VERIF, 'harness')
    if REPO != '/repo':
        # a run against another checkout of the library (VERIF_REPO, e.g. `vp run --with-repo`): the
        # harness module replaces the import path by a directory, so build from a copy that points there
        h2 = os.path.join(BUILD, 'harness-src')
        shutil.rmtree(h2, ignore_errors=True)
        shutil.copytree(h, h2)
        gm = open(os.path.join(h2, 'go.mod')).read().replace('=> /repo', '=> ' + REPO)
        open(os.path.join(h2, 'go.mod'), 'w').write(gm)
        h = h2
    shutil.copyfile(os.path.join(REPO, 'go.sum'), os.path.join(h, 'go.sum')) if os.path.exists(os.path.join(REPO, 'go.sum')) else None
    out = os.path.join(BUILD, 'verifh-race' if race else 'verifh')
    cmd = ['go', 'build', '-tags', 'verif'] + (['-race'] if race else []) + ['-o', out, '.']
    r = subprocess.run(cmd, cwd=h, env=ENV, capture_output=True, text=True)
    if r.returncode != 0:
        # /repo does not compile (or the harness does not): nothing can be said about the property
        raise Infra('harness build failed:\n' + r.stdout + r.stderr)
    return out


def scratch():
    return tempfile.mkdtemp(prefix='verif-')


def write_cfg(path, spec='Spec', constants=None, invariants=(), properties=(), extra=''):
    lines = ['SPECIFICATION ' + spec]
    if constants:
        lines.append('CONSTANTS')
        for k, v in constants.items():
            if isinstance(v, str) and v.startswith('<-'):
                lines.append('  %s <- %s' % (k, v[2:]))
                continue
            if isinstance(v, bool):
                v = 'TRUE' if v else 'FALSE'
            elif isinstance(v, str) and not v.startswith('{') and not v.startswith('<<'):
                v = '"%s"' % v
            lines.append('  %s = %s' % (k, v))
    if invariants:
        lines.append('INVARIANTS ' + ' '.join(invariants))
    if properties:
        lines.append('PROPERTIES ' + ' '.join(properties))
    lines.append('CHECK_DEADLOCK FALSE')
    if extra:
        lines.append(extra)
    open(path, 'w').write('\n'.join(lines) + '\n')


def tlc_cmd(sdir, module, cfg, workers=None, simulate=None, depth=None, extra=()):
    cmd = TLC + ['-workers', str(workers or NCPU), '-metadir', os.path.join(sdir, 'meta-' + module + '-' + os.path.basename(cfg)),
           '-config', cfg, '-seed', str(SEED)]
    if simulate:
        cmd += ['-simulate', 'num=%d' % simulate, '-depth', str(depth or 10)]
    cmd += list(extra) + [module + '.tla']
    return cmd


def prepare_spec(sdir):
    for f in os.listdir(os.path.join(VERIF, 'spec')):
        if f.endswith('.tla') or f.endswith('.cfg'):
            shutil.copy(os.path.join(VERIF, 'spec', f), sdir)
    # Grammar.tla is generated from /repo/jsonpath.peg on every run
    peg = os.path.join(REPO, 'jsonpath.peg')
    p2t = os.path.join(VERIF, 'tools', 'peg2tla.py')
    if os.path.exists(p2t):
        r = subprocess.run([sys.executable, p2t, peg, os.path.join(sdir, 'Grammar.tla'), os.path.join(sdir, 'grammar.json')], capture_output=True, text=True)
        if r.returncode != 0:
            raise Infra('peg2tla failed: ' + r.stdout + r.stderr)
        if ' 46 actions' not in r.stdout:
            raise Infra('jsonpath.peg no longer has 46 actions (%s): spec/Actions.tla must be re-transcribed' % r.stdout.strip())


def parse_tlc_log(path):
    """states generated / distinct, errors.  A TLC error (spec bug, invariant of the MODEL violated) is infra."""
    txt = open(path, errors='replace').read() if os.path.exists(path) else ''
    st = {'generated': 0, 'distinct': 0, 'error': None, 'finished': False, 'coverage': None}
    m = None
    for m in re.finditer(r'(\d+) states generated, (\d+) distinct states found', txt):
        pass
    if m:
        st['generated'], st['distinct'] = int(m.group(1)), int(m.group(2))
    st['finished'] = 'Model checking completed' in txt or 'Finished in' in txt
    if re.search(r'^Error:', txt, re.M):
        i = txt.find('Error:')
        st['error'] = txt[i:i + 1500]
    st['init'] = 0
    m = re.search(r'Finished computing initial states: (\d+) distinct state', txt)
    if m:
        st['init'] = int(m.group(1))
    st['simulated'] = 0
    m = re.search(r'(\d+) traces generated', txt)
    if m:
        st['simulated'] = int(m.group(1))
    return st


def run_gen(sdir, harness, module, constants, invariants, props, tlc_timeout, label, max_cases=0, opts='', simulate=None, depth=None, crashprop=None, workers=None, hworkers=None):
    """TLC enumerates/simulates and prints cases; the harness replays them against the real library."""
    cfg = os.path.join(sdir, '%s.cfg' % label)
    write_cfg(cfg, constants=constants, invariants=invariants)
    tlclog = os.path.join(sdir, label + '.tlc.log')
    out = os.path.join(sdir, label + '.sum.json')
    t0 = time.time()
    tlc = subprocess.Popen(['timeout', str(tlc_timeout)] + tlc_cmd(sdir, module, cfg, simulate=simulate, depth=depth, workers=workers),
                           cwd=sdir, stdout=subprocess.PIPE, stderr=subprocess.STDOUT)
    hcmd = [harness, 'run', '-props', props, '-log', tlclog, '-out', out]
    if max_cases:
        hcmd += ['-max', str(max_cases)]
    if opts:
        hcmd += ['-opts', opts]
    if crashprop:
        hcmd += ['-crashprop', crashprop]
    if hworkers:
        hcmd += ['-workers', str(hworkers)]
    h = subprocess.Popen(hcmd, stdin=tlc.stdout, cwd=sdir)
    tlc.stdout.close()
    h.wait()
    rc = tlc.wait()
    st = parse_tlc_log(tlclog)
    st['wall_s'] = round(time.time() - t0, 1)
    st['label'] = label
    st['cmd'] = ' '.join(tlc_cmd('<scratch>', module, os.path.basename(cfg), simulate=simulate, depth=depth, workers=workers))
    if simulate:
        # -simulate never stops by itself: the timeout (124) is how it ends
        if rc not in (0, 124, 137) or st['error']:
            raise Infra('TLC (%s, simulate) failed rc=%s:\n%s' % (label, rc, st['error'] or open(tlclog, errors='replace').read()[-2000:]))
    elif rc != 0 or st['error'] or not st['finished']:
        raise Infra('TLC (%s) failed rc=%s:\n%s' % (label, rc, st['error'] or open(tlclog, errors='replace').read()[-2000:]))
    if h.returncode != 0 or not os.path.exists(out):
        raise Infra('harness failed rc=%s (%s)' % (h.returncode, label))
    summ = json.load(open(out))
    if summ.get('infra') and not summ.get('violations'):
        raise Infra('harness reported: %s' % summ['infra'][:3])
    # with confirmed violations in hand, unreproduced worker failures are only parts without a verdict
    return st, summ


def run_tlc_only(sdir, module, constants, invariants, tlc_timeout, label, properties=(), spec='Spec', extra_cfg='', workers=None, tlc_extra=()):
    cfg = os.path.join(sdir, '%s.cfg' % label)
    write_cfg(cfg, spec=spec, constants=constants, invariants=invariants, properties=properties, extra=extra_cfg)
    tlclog = os.path.join(sdir, label + '.tlc.log')
    t0 = time.time()
    with open(tlclog, 'w') as f:
        rc = subprocess.run(['timeout', str(tlc_timeout)] + tlc_cmd(sdir, module, cfg, workers=workers, extra=tlc_extra), cwd=sdir, stdout=f, stderr=subprocess.STDOUT).returncode
    st = parse_tlc_log(tlclog)
    st['wall_s'] = round(time.time() - t0, 1)
    st['label'] = label
    st['rc'] = rc
    st['log'] = tlclog
    st['cmd'] = ' '.join(tlc_cmd('<scratch>', module, os.path.basename(cfg), workers=workers, extra=tlc_extra))
    return st


# ----------------------------------------------------------------------------- known findings

def load_known():
    p = os.path.join(VERIF, 'known_findings.json')
    if not os.path.exists(p):
        return []
    return json.load(open(p)).get('findings', [])


def match_known(v, known):
    for k in known:
        if k.get('status') != 'open':
            continue  # a "fixed" entry suppresses nothing
        if k['property'] != v['property']:
            continue
        m = k.get('match', {})
        ok = True
        for field, rx in m.items():
            if not re.search(rx, str(v.get(field, ''))):
                ok = False
                break
        if ok:
            return k
    return None


# ----------------------------------------------------------------------------- result handling

def finish(pid, tier, t0, level, coverage, assumptions, violations, known_hits):
    """print verdict lines, write evidence, return exit code"""
    os.makedirs(os.path.join(VERIF, 'evidence'), exist_ok=True)
    os.makedirs(os.path.join(VERIF, 'replays'), exist_ok=True)
    seen = set()
    for k, v in known_hits:
        if k['id'] not in seen:
            seen.add(k['id'])
            print('KNOWN-FINDING: property=%s %s' % (pid, k['what']))
    rc = 0
    printed = 0
    for v in violations:
        h = hashlib.sha1((v.get('case', '') + v['kind'] + v.get('path', '')).encode()).hexdigest()[:10]
        rp = os.path.join(VERIF, 'replays', '%s-%s.json' % (pid, h))
        json.dump(v, open(rp, 'w'), indent=1)
        if printed < 10:
            print('VIOLATION property=%s replay=%s' % (pid, rp))
            print('  kind=%s path=%s' % (v['kind'], v.get('path')))
            print('  document=%s' % (v.get('document', '')[:300]))
            print('  detail=%s' % (v.get('detail', '')[:600]))
            printed += 1
        rc = 1
    ev = {
        'property_id': pid, 'tier': tier, 'seed': SEED, 'level': level,
        'coverage': coverage, 'assumptions': assumptions,
        'wall_s': round(time.time() - t0, 1), 'violations': len(violations),
    }
    json.dump(ev, open(os.path.join(VERIF, 'evidence', pid + '.json'), 'w'), indent=1)
    return rc


def main():
    if len(sys.argv) >= 2 and sys.argv[1] == 'build':
        build()
        print('built')
        return 0
    if len(sys.argv) >= 3 and sys.argv[1] == 'replay':
        import checks
        return checks.replay(sys.argv[2])
    if len(sys.argv) < 3:
        print(__doc__)
        return 2
    pid, tier = sys.argv[1], sys.argv[2]
    tier = os.environ.get('VERIF_TIER', tier) if tier not in ('quick', 'thorough') else tier
    import checks
    if pid not in checks.CHECKS:
        print('unknown property', pid)
        return 2
    t0 = time.time()
    sdir = scratch()
    try:
        return checks.run(pid, tier, sdir, t0)
    except Infra as e:
        log('INFRASTRUCTURE PROBLEM (no verdict): %s' % e)
        return 2
    finally:
        if not os.environ.get('VERIF_KEEP'):
            shutil.rmtree(sdir, ignore_errors=True)
        else:
            log('scratch kept at', sdir)




# ----------------------------------------------------------------------------- direction B helpers

def extract_corpus(sdir):
    """the repository's own (path, inputJSON) pairs, textually, from test_jsonpath_test.go"""
    src = open(os.path.join(REPO, 'test_jsonpath_test.go'), encoding='utf-8', errors='replace').read()
    lit = r'(`[^`]*`|"(?:[^"\\]|\\.)*")'
    pairs = []
    for m in re.finditer(r'jsonpath:\s*' + lit + r'\s*,\s*\n\s*inputJSON:\s*' + lit, src):
        def unq(s):
            if s.startswith('`'):
                return s[1:-1]
            try:
                return json.loads(s)
            except Exception:
                return None
        p, d = unq(m.group(1)), unq(m.group(2))
        if p is not None and d is not None:
            pairs.append((p, d))
    # README examples: lines with a path in backticks
    try:
        readme = open(os.path.join(REPO, 'README.md'), encoding='utf-8', errors='replace').read()
        extra = set(re.findall(r'`(\$[^`\n]{0,80})`', readme))
    except Exception:
        extra = set()
    paths = sorted(set(p for p, _ in pairs) | extra)
    pp = os.path.join(sdir, 'corpus_paths.ndjson')
    with open(pp, 'w') as f:
        for p in paths:
            f.write(json.dumps(p) + '\n')
    pq = os.path.join(sdir, 'corpus_pairs.ndjson')
    seen = set()
    with open(pq, 'w') as f:
        for p, d in pairs:
            if (p, d) not in seen:
                seen.add((p, d))
                f.write(json.dumps({'path': p, 'doc': d}) + '\n')
    return pp, pq, len(paths), len(seen)


def run_record(sdir, harness, gen_cmd, props, label, crashprop):
    """generator | harness run -records : returns (summary, records path, generator stderr)"""
    rec = os.path.join(sdir, label + '.records.ndjson')
    out = os.path.join(sdir, label + '.sum.json')
    g = subprocess.Popen([harness] + gen_cmd, cwd=sdir, stdout=subprocess.PIPE, stderr=subprocess.PIPE)
    h = subprocess.Popen([harness, 'run', '-props', props, '-records', rec, '-out', out, '-crashprop', crashprop], stdin=g.stdout, cwd=sdir)
    g.stdout.close()
    gerr = g.stderr.read().decode(errors='replace')
    h.wait()
    if g.wait() != 0 or h.returncode != 0 or not os.path.exists(out):
        raise Infra('recorder failed (%s): %s' % (label, gerr[-500:]))
    summ = json.load(open(out))
    if summ.get('infra'):
        raise Infra('recorder reported: %s' % summ['infra'][:3])
    return summ, rec, gerr


def validate_trace(sdir, module, recfile, label, timeout=1800, chunk=100):
    """TLC validates every record of recfile with Trace_<x>; returns (tlc stats, list of rejected {id, ...})"""
    n = sum(1 for _ in open(recfile))
    if n == 0:
        return {'label': label, 'cmd': '', 'generated': 0, 'distinct': 0, 'wall_s': 0}, [], 0
    st = run_tlc_only(sdir, module, {'TraceFile': os.path.basename(recfile), 'ChunkSize': chunk}, ['Inv'], timeout, label)
    txt = open(st['log'], errors='replace').read()
    if st['rc'] != 0 or st['error'] or not st['finished']:
        raise Infra('trace validation %s failed (TLC error, not a verdict):\n%s' % (label, st['error'] or txt[-3000:]))
    nchunks = (n + chunk - 1) // chunk
    if st['distinct'] != 1 + nchunks + n:
        raise Infra('trace validation %s consumed %d states, expected %d (= 1 + %d chunks + %d records)' % (label, st['distinct'], 1 + nchunks + n, nchunks, n))
    rejected = []
    for line in txt.splitlines():
        if line.startswith('"{'):
            try:
                rejected.append(json.loads(json.loads(line)))
            except Exception:
                pass
    return st, rejected, n


def model_to_json(v):
    """wire form of a model value -> JSON text (for replay files of direction-B evaluation records)"""
    def conv(x):
        t = x['t']
        if t == 'null':
            return None
        if t == 'bool':
            return x['b']
        if t == 'num':
            n = x['n']
            return n // 1000 if n % 1000 == 0 else n / 1000
        if t == 'str':
            return ''.join(chr(c) for c in x['s'])
        if t == 'arr':
            return [conv(e) for e in x['a']]
        return {''.join(chr(c) for c in m['key']): conv(m['val']) for m in x['o']}
    return json.dumps(conv(v))


def write_parse_pool(sdir, size='quick'):
    """the (path, config) pool of Gen_ParseHist: valid paths, paths aborting at every action that can abort
    (also inside filter operands), configurations with disjoint function sets / accessor mode"""
    C0 = dict(ff=[], af=[], acc=False, cname='none')
    C1 = dict(ff=['f1', 'f2'], af=['g1'], acc=False, cname='f1,f2,g1')
    C2 = dict(ff=['f3'], af=['g2'], acc=False, cname='f3,g2')
    C3 = dict(ff=[], af=[], acc=True, cname='accessor')
    C4 = dict(ff=['f1', 'f2'], af=['g1'], acc=True, cname='f1,f2,g1+accessor')
    C5 = dict(ff=[], af=['g1'], acc=False, cname='g1 only')
    C6 = dict(ff=['f1'], af=[], acc=False, cname='f1 only')
    pool = [
        ('$.a', C0), ('$.a', C3), ('$.a', C1), ('$.a.f1()', C1), ('$.a.f1()', C2), ('$.a.f1()', C0), ('$.x.b.g1()', C4), ('$.x.b.g2()', C2),
        ('[?(@.a)]', C0), ('[?(!@.a)]', C3), ('a', C0), ("['a','b']", C3), ('$[?(@.a == 1)]', C0), ('$[?(@.a.f1())]', C1),
        ('$[99999999999999999999]', C0), ('$[?(@.a == 1e999)]', C0), ('$[?(@.a =~ /(/)]', C1), ('$.a.nosuch()', C1), ('$[(1+1)]', C3),
        ('$[?(@.a == @.b)]', C0), ('$[?(@.* == 1)]', C0), ('$.a b', C4),
        ('$.x[?(@.b.nosuch())]', C1), ('$.x[?(@.a == $[99999999999999999999])]', C0), ('$.x[?(@.a > 1 && @[(x)])]', C3), ('$.x[?(@.a', C0),
        ('$.x[?($.a.f3() == @.b.nosuch())]', C2),
        # a Config without functions of one kind right after one that has them
        ('$.a.f1()', C3), ('$.a.f1()', C5), ('$.x.b.g1()', C6), ('$.x.b.g1()', C3),
        # no Config at all after Configs with functions; the same names bound to other implementations; two Configs in one call
        ('$.x.b.g1()', C0), ('$.a.f1()', dict(C1, variant=2, cname='f1,f2,g1 (other implementations)')), ('$.x.b.g1()', dict(C4, variant=2, cname='f1,f2,g1+accessor (other implementations)')),
        ('$.a.f1()', dict(C1, extra=True, cname='f1,f2,g1 + a second Config')), ('$.a.f9()', dict(C1, extra=True, cname='f1,f2,g1 + a second Config')),
        ('$[?(@.a =~ /(/)]', C0),
        # one escaped text in its two roles (member name: JSON escapes; string literal: the backslash is dropped)
        ("$['x\\ty']", C0), ("$[?(@ == 'x\\ty')]", C0), ('$["x\\ty"]', C3),
        # a path of more than 64 bytes (whatever is remembered about long paths must not outlive the call)
        ('$[' + ' ' * 12 + "'x'" + ' ' * 12 + '][' + ' ' * 12 + "'b'" + ' ' * 12 + '][' + ' ' * 6 + '0' + ' ' * 6 + ']', C0),
    ]
    if size != 'quick':
        pool += [('$..a', C3), ('$[?(@.a.f1() == 1)]', C4), ('$.x[?(@.a =~ /a/)]', C0), ('$.x[?(@.a == "1\\")]', C0), ('*', C0), ('$[0:1]', C3),
                 ('$.x[?(@.a.g1() > $[99999999999999999999])]', C1), ("$['\\ud800']", C0), ('$.x[?((@.a == 1) && (@.b.nosuch()))]', C1)]
    p = os.path.join(sdir, 'pool.ndjson')
    with open(p, 'w') as f:
        for text, c in pool:
            cp = lambda s: [ord(ch) for ch in s]
            f.write(json.dumps({'name': text + ' | ' + c['cname'], 's': cp(text), 'cfg': {'ff': [cp(x) for x in c['ff']], 'af': [cp(x) for x in c['af']]}, 'acc': c['acc'],
                                'variant': c.get('variant', 1), 'extra': c.get('extra', False)}) + '\n')
    return p, len(pool)
