"""Registry of the per-property checks: which TLC models run, with which constants per tier,
which oracles of the harness bind them to the real library, and how evidence is assembled."""
import json, os, re, subprocess, sys, time
import vlib
from vlib import Infra, log

TRUSTED = [
    'TLC 2026.09.04 evaluates the TLA+ specification correctly',
    'the Go harness converts model values/paths faithfully (its canonical renderer is compared with the specification\'s text on every case)',
    'encoding/json, strconv, regexp, reflect of the Go standard library (used by the harness as oracles for decoding documents, number/regex validity and type names)',
    'bounded scope: every document/path/history outside the enumerated or sampled space is not covered',
]


def sel(label, props, tier_consts, invariants, timeout=900, **kw):
    return dict(kind='gen', module='Gen_Select', label=label, props=props, constants=tier_consts,
                invariants=invariants, timeout=timeout, **kw)


def SEL(maxlen, scope, docset, funcs=False, spell='canon', fset='full'):
    return dict(MaxLen=maxlen, Scope=scope, WithFuncs=funcs, Spellings=spell, DocSet=docset, FuncSet=fset)


# stage lists per property and tier ------------------------------------------------------------

def c01(tier):
    if tier == 'quick':
        return [sel('pairs', 'C01', SEL(2, 'pairs', 'small'), ['LawFailsIffEmpty', 'Emit']), EXTRAS('C01'), SLICES('C01'),
                sel('one-step-funcs', 'C01', SEL(1, 'triples', 'small', funcs=True, fset='small'), ['Emit']),
                traceB_eval(2500, 60000, 'C01,C03,C04', EVAL_ATTR)]
    return [sel('pairs', 'C01', SEL(2, 'pairs', 'full'), ['LawFailsIffEmpty', 'Emit'], timeout=1800), SLICES('C01'),
            traceB_eval(2500, 60000, 'C01,C03,C04', EVAL_ATTR),
            sel('triples', 'C01', SEL(3, 'triples', 'full'), ['LawFailsIffEmpty', 'Emit'], timeout=3600),
            sel('funcs', 'C01', SEL(2, 'triples', 'full', funcs=True), ['Emit'], timeout=1800)]


def EXTRAS(prop, inv=('Emit',), funcs=False, **kw):
    """special-purpose queries (nested `$` operands, bare `@` under && / ||, failing / nested aggregates, probe function) between plain steps"""
    return sel('extras', prop, SEL(2, 'extras', 'small', funcs=funcs, fset='small'), list(inv), **kw)


def SLICES(prop):
    """the integer-magnitude scope (Gen_Slice) under the oracles of another property"""
    return dict(kind='gen', module='Gen_Slice', label='magnitudes', props='C01,C03', opts='alias=%s,allspell=1' % prop, timeout=600,
                constants=dict(Rng=3, MaxN=4, Bigs=True, Forms='all'), invariants=['LawMech', 'LawIndex', 'Emit'])


def simple_sel(prop, laws=(), extra=(), quick_scope='pairs'):
    def f(tier):
        inv = list(laws) + ['Emit']
        if tier == 'quick':
            return [sel(quick_scope, prop, SEL(2, quick_scope, 'small'), inv), EXTRAS(prop)] + [e() if callable(e) else e for e in extra]
        return [sel('pairs', prop, SEL(2, 'pairs', 'full'), inv, timeout=1800), EXTRAS(prop),
                sel('triples', prop, SEL(3, 'triples', 'full'), inv, timeout=3600)] + [e() if callable(e) else e for e in extra]
    return f


def c08(tier):
    law = lambda scope, n, docs, t=900: dict(kind='tlc', module='Gen_Select', label='law-compose-' + scope, constants=SEL(n, scope, docs), invariants=['LawCompose'], timeout=t)
    if tier == 'quick':
        return [law('triples', 2, 'small'), sel('pairs', 'C08', SEL(2, 'pairs', 'small'), ['Emit']), EXTRAS('C08'),
                sel('nested-descents', 'C08', SEL(3, 'recrec', 'rec'), ['LawCompose', 'Emit']),
                sel('one-step-funcs', 'C08', SEL(1, 'triples', 'small', funcs=True, fset='small'), ['Emit'])]
    return [law('pairs', 2, 'full', 3600), law('triples', 3, 'small', 7200), sel('pairs', 'C08', SEL(2, 'pairs', 'full'), ['Emit'], timeout=3600),
            sel('triples', 'C08', SEL(3, 'triples', 'full'), ['Emit'], timeout=7200),
            sel('nested-descents', 'C08', SEL(3, 'recrec', 'rec'), ['LawCompose', 'Emit']),
            sel('funcs', 'C08', SEL(2, 'triples', 'small', funcs=True, fset='small'), ['Emit'], timeout=3600)]


def mech(scope, n, docs, timeout=1800, funcs=False):
    scope = scope.replace('-funcs', '')
    c = SEL(n, scope, docs, funcs=funcs)
    c['InnerTextMissing'] = False
    return dict(kind='tlc', module='MC_Mech', label='mech-refines-L1-' + scope, constants=c, invariants=['LawMechRefines'], timeout=timeout)


def mech_mutant():
    def fn(pid, tier, sdir, harness, known):
        c = SEL(2, 'triples', 'small')
        c['InnerTextMissing'] = True
        st = vlib.run_tlc_only(sdir, 'MC_Mech', c, ['LawMechRefines'], 900, 'mech-inner-text-missing')
        if 'Invariant LawMechRefines is violated' not in open(st['log'], errors='replace').read():
            raise Infra('Mech with InnerTextMissing=TRUE no longer violates the refinement: the model lost its sensitivity')
        return dict(tlc_runs=[{k: st[k] for k in ('label', 'cmd', 'generated', 'distinct', 'wall_s')}], counters={'mutant-model-killed': 1}, exhaustive=True)
    return dict(kind='custom', fn=fn)


def c15(tier):
    if tier == 'quick':
        return [mech('triples', 2, 'small'), sel('pairs', 'C15', SEL(2, 'pairs', 'small'), ['Emit']), EXTRAS('C15'),
                sel('one-step-funcs', 'C15', SEL(1, 'triples', 'small', funcs=True, fset='small'), ['Emit']),
                sel('failing-branches', 'C15', SEL(3, 'errs', 'errs'), ['Emit']), traceB_eval(6000, 60000, 'C15', EVAL_ATTR)]
    return [mech('pairs', 2, 'small', 7200), mech('triples', 3, 'small', 7200), mech_mutant(),
            sel('pairs', 'C15', SEL(2, 'pairs', 'full'), ['Emit'], timeout=3600), sel('triples', 'C15', SEL(3, 'triples', 'full'), ['Emit'], timeout=7200),
            sel('failing-branches', 'C15', SEL(3, 'errs', 'errs'), ['Emit']), traceB_eval(6000, 60000, 'C15', EVAL_ATTR)]


def c14(tier):
    if tier == 'quick':
        return [sel('funcs', 'C14', SEL(2, 'triples', 'small', funcs=True, fset='small'), ['Emit']), EXTRAS('C14'), traceB_eval(3000, 60000, 'C14', EVAL_ATTR)]
    return [mech('triples-funcs', 2, 'small', 7200, funcs=True), EXTRAS('C14'), sel('funcs', 'C14', SEL(2, 'triples', 'full', funcs=True), ['Emit'], timeout=1800),
            sel('funcs-pairs', 'C14', SEL(2, 'pairs', 'small', funcs=True), ['Emit'], timeout=3600)]


def config_hist(prop, maxops, timeout=900):
    """the Config object as a state machine (spec/Gen_Config): Set* calls in every order, before and after Parse"""
    return [dict(kind='gen', module='Gen_Config', label='config-histories%d' % maxops, props=prop, timeout=timeout, check_count=False,
                 constants=dict(MaxOps=maxops), invariants=['LawOrderFree', 'Emit']),
            dict(kind='tlc', module='Gen_Config', label='config-snapshot-frozen', constants=dict(MaxOps=min(maxops, 4)), invariants=['LawOrderFree'],
                 properties=['LawSnapshotFrozen'], timeout=timeout)]


def c12(tier):
    if tier == 'quick':
        return [sel('funcs', 'C12', SEL(2, 'triples', 'small', funcs=True, fset='small'), ['Emit']), EXTRAS('C12'),
                sel('omitted-root', 'C12', SEL(2, 'triples', 'tiny', spell='omit'), ['Emit'], opts='allspell=1'), traceB_eval(3000, 60000, 'C12', EVAL_ATTR)] + config_hist('C12', 4)
    return [sel('funcs', 'C12', SEL(2, 'triples', 'full', funcs=True), ['Emit'], timeout=3600),
            sel('pairs', 'C12', SEL(2, 'pairs', 'full'), ['Emit'], timeout=3600), EXTRAS('C12'),
            sel('omitted-root', 'C12', SEL(2, 'triples', 'tiny', spell='omit'), ['Emit'], opts='allspell=1'), traceB_eval(3000, 60000, 'C12', EVAL_ATTR)] + config_hist('C12', 6, 3600)


def c18(tier):
    if tier == 'quick':
        return [sel('spellings', 'C18', SEL(2, 'triples', 'small', spell='all'), ['Emit']),
                sel('omitted-root-funcs', 'C18', SEL(2, 'triples', 'tiny', funcs=True, spell='omit', fset='small'), ['Emit']),
                roundtrip('roundtrip-atoms', 'C18', 'atoms'),
                # every slice form written compactly and with blanks / signs / leading zeros (Gen_Slice renders both)
                dict(kind='gen', module='Gen_Slice', label='slice-spellings', props='C18', opts='allspell=1', timeout=600,
                     constants=dict(Rng=2, MaxN=3, Bigs=True, Forms='all'), invariants=['Emit']),
                # bounds up to 9: the verbose spelling writes them +08, -09 (a leading zero is not an octal prefix)
                dict(kind='gen', module='Gen_Slice', label='slice-spellings-0..9', props='C18', opts='allspell=1', timeout=600,
                     constants=dict(Rng=9, MaxN=1, Bigs=False, Forms='plain'), invariants=['Emit']),
                dict(kind='gen', module='Gen_Keys', label='quote-styles-agree', props='C18', timeout=600,
                     constants=dict(MaxAtoms=2, Alphabet='reduced'), invariants=['Emit'])]
    return [sel('spellings', 'C18', SEL(2, 'pairs', 'small', spell='all'), ['Emit'], timeout=3600),
            dict(kind='gen', module='Gen_Slice', label='slice-spellings', props='C18', opts='allspell=1', timeout=1800,
                 constants=dict(Rng=3, MaxN=4, Bigs=True, Forms='all'), invariants=['Emit']),
            dict(kind='gen', module='Gen_Keys', label='quote-styles-agree', props='C18', timeout=1800,
                 constants=dict(MaxAtoms=2, Alphabet='full'), invariants=['Emit']),
            sel('all-64-spellings', 'C18', SEL(2, 'triples', 'small', spell='all64'), ['Emit'], timeout=7200),
            roundtrip('roundtrip-atoms', 'C18', 'atoms'), roundtrip('roundtrip-steps', 'C18', 'steps', 7200),
            sel('spellings-funcs', 'C18', SEL(2, 'triples', 'small', funcs=True, spell='all', fset='small'), ['Emit'], timeout=7200)]


def apalache_lemma():
    """the saturation lemma over unbounded integers (justifies the stand-in magnitudes used inside TLC)"""
    def fn(pid, tier, sdir, harness, known):
        t0 = time.time()
        r = subprocess.run(['timeout', '600', 'apalache-mc', 'check', '--init=Init', '--inv=SatLemma', '--length=0', '--out-dir=' + os.path.join(sdir, 'apa-out'), 'Slice_apalache.tla'],
                           cwd=sdir, capture_output=True, text=True)
        if 'The outcome is: NoError' not in r.stdout:
            raise Infra('Apalache did not discharge the saturation lemma:\n' + (r.stdout + r.stderr)[-1500:])
        return dict(tlc_runs=[], counters={'apalache-lemma-SatLemma-discharged': 1, 'apalache-seconds': int(time.time() - t0)}, exhaustive=True)
    return dict(kind='custom', fn=fn)


def c11(tier):
    inv = ['LawMech', 'LawIndex', 'Emit']
    o = 'alias=C11,allspell=1'
    if tier == 'quick':
        return [apalache_lemma(), dict(kind='gen', module='Gen_Slice', label='slices', props='C01,C03', opts=o, timeout=600,
                     constants=dict(Rng=7, MaxN=6, Bigs=True, Forms='plain'), invariants=inv),
                dict(kind='gen', module='Gen_Slice', label='forms', props='C01,C03', opts=o, timeout=600,
                     constants=dict(Rng=3, MaxN=4, Bigs=True, Forms='all'), invariants=inv)]
    return [apalache_lemma(), dict(kind='gen', module='Gen_Slice', label='slices-all-forms', props='C01,C03', opts=o, timeout=3600,
                 constants=dict(Rng=7, MaxN=6, Bigs=True, Forms='all'), invariants=inv),
            dict(kind='gen', module='Gen_Slice', label='wide', props='C01,C03', opts=o, timeout=3600,
                 constants=dict(Rng=12, MaxN=9, Bigs=True, Forms='plain'), invariants=inv)]


# ---------------------------------------------------------------- parser family (C02, C17, C16, C18)

def parse_gen(label, props, maxtok, alphabet, timeout=1200):
    return dict(kind='gen', module='Gen_Parse', label=label, props=props, timeout=timeout,
                constants=dict(MaxTok=maxtok, Alphabet=alphabet), invariants=['LawDocumented', 'LawPrefix', 'LawPosInside', 'Emit'])


def roundtrip(label, props, scope, timeout=1800):
    return dict(kind='gen', module='Gen_RoundTrip', label=label, props=props, timeout=timeout,
                constants=dict(Scope=scope), invariants=['RoundTrip', 'ReportedAgree', 'Emit'], check_count=False)


def traceB_parse(n_quick, n_thorough, props):
    def fn(pid, tier, sdir, harness, known):
        n = n_quick if tier == 'quick' else n_thorough
        pp, pq, npaths, npairs = vlib.extract_corpus(sdir)
        gj = os.path.join(sdir, 'grammar.json')
        summ, rec, gerr = vlib.run_record(sdir, harness, ['gen-parse', '-seed', str(vlib.SEED), '-n', str(n), '-corpus', pp, '-grammar', gj], props, 'recparse', pid)
        st, rejected, nrec = vlib.validate_trace(sdir, 'Trace_Parse', rec, 'trace-parse', timeout=1800 if tier == 'quick' else 10800)
        viol, hits = [], []
        for v in summ.get('violations') or []:
            if v['property'] == pid:
                k = vlib.match_known(v, known)
                (hits if k else viol).append((k, v) if k else v)
        if rejected:
            byid = {}
            for line in open(rec):
                r = json.loads(line)
                byid[r['id']] = r
            for rj in rejected:
                r = byid.get(rj['mismatch'])
                text = ''.join(chr(c) for c in r['s'])
                v = {'property': 'C17', 'kind': 'acceptance-differs' if (rj['model']['cls'] == 'ok') != (rj['real']['cls'] == 'ok') else 'outcome-differs',
                     'path': text, 'document': '', 'signature': rj['model']['cls'] + '->' + rj['real']['cls'],
                     'detail': 'jsonpath.peg + actions give %s, Parse gave %s' % (json.dumps(rj['model']), json.dumps(rj['real'])),
                     'case': json.dumps({'fam': 'parse', 's': r['s'], 'cfg': r['cfg'],
                                         'out': rj['model'], 'asm': []})}
                if pid in ('C17',):
                    k = vlib.match_known(v, known)
                    (hits if k else viol).append((k, v) if k else v)
        cov = {}
        m = [l for l in gerr.splitlines() if l.startswith('GENCOV ')]
        if m:
            g = json.loads(m[0][7:])
            cov = {'grammar_alternatives_taken': len(g)}
        counters = dict(summ['counters'])
        counters.update({'corpus_paths': npaths, 'records_validated_by_TLC': nrec, 'records_rejected_by_TLC': len(rejected)})
        counters.update(cov)
        return dict(tlc_runs=[{k: st[k] for k in ('label', 'cmd', 'generated', 'distinct', 'wall_s')}], cases=summ['cases'], distinct=summ['distinct_nontrivial'],
                    counters=counters, samples=(summ.get('samples') or [])[:2], violations=viol, known_hits=hits, exhaustive=False)
    return dict(kind='custom', fn=fn)


def traceB_eval(n_quick, n_thorough, props, attribute):
    """random + repository-corpus (path, document) pairs evaluated by the real library, validated by Trace_Eval"""
    def fn(pid, tier, sdir, harness, known):
        n = n_quick if tier == 'quick' else n_thorough
        pp, pq, npaths, npairs = vlib.extract_corpus(sdir)
        summ, rec, gerr = vlib.run_record(sdir, harness, ['gen-eval', '-seed', str(vlib.SEED), '-n', str(n), '-corpus', pq], props, 'receval', pid)
        st, rejected, nrec = vlib.validate_trace(sdir, 'Trace_Eval', rec, 'trace-eval', timeout=1800 if tier == 'quick' else 10800)
        viol, hits = [], []
        for v in summ.get('violations') or []:
            if v['property'] == pid:
                k = vlib.match_known(v, known)
                (hits if k else viol).append((k, v) if k else v)
        verdicts = {}
        if rejected:
            byid = {}
            for line in open(rec):
                r = json.loads(line)
                byid[r['id']] = r
            for rj in rejected:
                verdicts[rj['verdict']] = verdicts.get(rj['verdict'], 0) + 1
                if rj['verdict'].startswith('skip-'):
                    continue
                r = byid.get(rj['id'])
                text = ''.join(chr(c) for c in r['s'])
                if rj['verdict'] in ('model-rejects-path', 'recorder-key-order'):
                    raise Infra('Trace_Eval: %s for %r' % (rj['verdict'], text))
                if pid not in attribute.get(rj['verdict'], ()):
                    continue
                v = {'property': pid, 'kind': rj['verdict'], 'path': text, 'document': json.dumps(r['doc'])[:2000], 'signature': 'traceB',
                     'detail': 'decode=%s: the real library returned %s, which the specification does not admit' % (r['mode'], json.dumps(r['res'])[:800]),
                     'case': json.dumps({'fam': 'receval', 'id': r['id'] // 2, 'hex': text.encode('utf-8', 'surrogatepass').hex(), 'doc': vlib.model_to_json(r['doc']), 'src': 'replay'})}
                k = vlib.match_known(v, known)
                (hits if k else viol).append((k, v) if k else v)
        counters = dict(summ['counters'])
        counters.update({'corpus_pairs': npairs, 'records_validated_by_TLC': nrec,
                         'records_rejected_by_TLC': sum(v for k, v in verdicts.items() if not k.startswith('skip-'))})
        for k, v in verdicts.items():
            counters['tlc-verdict:' + k] = v
        return dict(tlc_runs=[{k: st[k] for k in ('label', 'cmd', 'generated', 'distinct', 'wall_s')}], cases=summ['cases'], distinct=summ['distinct_nontrivial'],
                    counters=counters, samples=(summ.get('samples') or [])[:2], violations=viol, known_hits=hits, exhaustive=False)
    return dict(kind='custom', fn=fn)


# which properties a Trace_Eval verdict speaks about ("a query that matches nothing is always reported as an error" is C03 too)
EVAL_ATTR = {'call-log-differs': ('C14',), 'expected-values-got-error': ('C01',), 'expected-failure-got-values': ('C01', 'C03'), 'values-differ': ('C01',), 'error-not-admissible': ('C15',)}


def keys_gen(label, maxatoms, alphabet, timeout=900, simulate=None, depth=None):
    return dict(kind='gen', module='Gen_Keys', label=label, props='C16', timeout=timeout, simulate=simulate, depth=depth,
                constants=dict(MaxAtoms=maxatoms, Alphabet=alphabet), invariants=['LawBracket', 'LawDot', 'LawRecDot', 'Emit'])


def c16(tier):
    if tier == 'quick':
        return [keys_gen('keys2-full', 2, 'full'), keys_gen('keys3-reduced', 3, 'reduced'),
                keys_gen('keys-long-simulated', 8, 'full', timeout=15, simulate=100000, depth=9),
                keys_gen('key-lengths-1..100', 100, 'lengths')]
    return [keys_gen('keys3-full', 3, 'full', 7200), keys_gen('keys4-reduced', 4, 'reduced', 7200),
            keys_gen('keys-long-simulated', 12, 'full', timeout=600, simulate=10000000, depth=13), keys_gen('key-lengths-1..120', 120, 'lengths', 3600)]


def c07(tier):
    inv = ['LawPoolSorted', 'LawUtf8', 'LawSeparates', 'LawDocSorted', 'Emit']
    def st(label, lo, hi, **kw):
        return dict(kind='gen', module='Gen_KeyOrder', label=label, props='C07', constants=dict(MinKeys=lo, MaxKeys=hi), invariants=inv,
                    check_count=False, timeout=kw.pop('timeout', 900), **kw)
    if tier == 'quick':
        return [st('subsets-2..5', 2, 5), st('subsets-9..13', 9, 13), st('subsets-6..8-simulated', 6, 8, timeout=8, simulate=100000, depth=14)]
    return [st('all-subsets-2..13', 2, 13, timeout=7200)]


def c20(tier):
    o = 'alias=C20'
    def st(label, maxlen, templates, types, timeout=1200):
        return dict(kind='gen', module='Gen_Opaque', label=label, props='C01,C03,C04,C12,C15,C14', opts=o, timeout=timeout, check_count=False,
                    constants=dict(MaxLen=maxlen, Templates=templates, TypeSet=types), invariants=['LawFailsIffEmpty', 'Emit'])
    if tier == 'quick':
        return [st('one-step-all-types', 1, 'all', 'all'), st('two-steps-six-types', 2, 'few', 'six')]
    return [st('two-steps-all-types', 2, 'all', 'all', 7200)]


def filt(label, props, members, depth, kinds, roots, timeout=1800):
    return dict(kind='gen', module='Gen_Filter', label=label, props=props, timeout=timeout, check_count=False,
                constants=dict(MaxMembers=members, QDepth=depth, Kinds=kinds, RootSet=roots),
                invariants=['LawBoolean', 'LawNe', 'LawMirror', 'LawLe', 'LawTypeStrict', 'Emit'])


def filterproto(depth, timeout=1800):
    return dict(kind='tlc', module='FilterProto', label='filterproto-depth%d' % depth, constants=dict(AsCoded=False, PDepth=depth),
                invariants=['NoProtectedWrite', 'Refines'], timeout=timeout)


def filterproto_mutant():
    """sensitivity: with the protective mechanisms switched off the model MUST violate NoProtectedWrite"""
    def fn(pid, tier, sdir, harness, known):
        st = vlib.run_tlc_only(sdir, 'FilterProto', dict(AsCoded=True, PDepth=1), ['NoProtectedWrite'], 600, 'filterproto-as-coded')
        txt = open(st['log'], errors='replace').read()
        if 'Invariant NoProtectedWrite is violated' not in txt:
            raise Infra('FilterProto with AsCoded=TRUE no longer violates NoProtectedWrite: the model lost its sensitivity')
        return dict(tlc_runs=[{k: st[k] for k in ('label', 'cmd', 'generated', 'distinct', 'wall_s')}], counters={'mutant-model-killed': 1}, exhaustive=True)
    return dict(kind='custom', fn=fn)


def lawfuzz():
    """C09 duality laws (oracle-free) on adjacent floats / huge / tiny numbers, outside the three-decimal model"""
    def fn(pid, tier, sdir, harness, known):
        r = subprocess.run([harness, 'lawfuzz', '-seed', str(vlib.SEED), '-n', '1500' if tier == 'quick' else '40000'], capture_output=True, text=True, cwd=sdir)
        if r.returncode != 0:
            raise Infra('lawfuzz failed: ' + r.stderr[-800:])
        o = json.loads(r.stdout)
        viol = [{'property': 'C09', 'kind': 'law-on-adjacent-floats', 'path': v[:200], 'document': '', 'signature': 'lawfuzz', 'detail': v,
                 'case': json.dumps({'fam': 'lawfuzz', 'seed': vlib.SEED})} for v in (o.get('violations') or [])[:3]]
        return dict(tlc_runs=[], cases=o['checked'], distinct=0, counters={'lawfuzz-relations-checked': o['checked']}, samples=[], violations=viol, known_hits=[], exhaustive=False)
    return dict(kind='custom', fn=fn)


def lawfuzz_parity():
    """C10: the same members are selected under both number decodings, on integers beyond int64 / 2^53, huge and tiny magnitudes"""
    def fn(pid, tier, sdir, harness, known):
        r = subprocess.run([harness, 'lawfuzz', '-parity', '-seed', str(vlib.SEED), '-n', '1500' if tier == 'quick' else '40000'], capture_output=True, text=True, cwd=sdir)
        if r.returncode != 0:
            raise Infra('lawfuzz failed: ' + r.stderr[-800:])
        o = json.loads(r.stdout)
        viol = [{'property': 'C10', 'kind': 'decode-mode-changes-selection', 'path': v[:200], 'document': '', 'signature': 'lawfuzz', 'detail': v,
                 'case': json.dumps({'fam': 'lawfuzz', 'seed': vlib.SEED})} for v in (o.get('violations') or [])[:3]]
        return dict(tlc_runs=[], cases=o['checked'], distinct=0, counters={'decode-parity-relations-checked': o['checked']}, samples=[], violations=viol, known_hits=[], exhaustive=False)
    return dict(kind='custom', fn=fn)


def c09(tier):
    if tier == 'quick':
        return [filterproto(1), filt('atoms', 'C09', 2, 1, 'both', 'all'), filt('pairs', 'C09', 2, 2, 'arr', 'two'), filt('deep-eq', 'C09', 2, 1, 'both', 'deep'), lawfuzz()]
    return [filterproto(2, 3600), filterproto_mutant(), filt('atoms', 'C09', 3, 1, 'both', 'all', 7200), filt('pairs', 'C09', 2, 2, 'both', 'all', 7200),
            filt('triples', 'C09', 2, 3, 'arr', 'two', 7200), filt('deep-eq', 'C09', 3, 1, 'both', 'deep', 7200), lawfuzz()]


def c10(tier):
    if tier == 'quick':
        return [filt('atoms', 'C10', 2, 1, 'both', 'all'), filt('pairs', 'C10', 1, 2, 'both', 'all'), filt('deep-eq', 'C10', 2, 1, 'both', 'deep'), lawfuzz_parity(), traceB_eval(4000, 60000, 'C10', EVAL_ATTR)]
    return [filt('atoms', 'C10', 3, 1, 'both', 'all', 7200), filt('pairs', 'C10', 2, 2, 'both', 'all', 7200), filt('deep-eq', 'C10', 3, 1, 'both', 'deep', 7200), lawfuzz_parity(), traceB_eval(4000, 60000, 'C10', EVAL_ATTR)]


def conc_model(label, ng, prog, timeout=600):
    return dict(kind='tlc', module='MC_Conc', label='conc-' + label, timeout=timeout,
                constants={'NG': ng, 'Prog': '<-' + prog, 'UseMutex': True, 'ResetParser': True, 'PoolPrivate': True, 'CopyOut': True, 'TreeReadOnly': True},
                invariants=['MutualExclusion', 'ResidueFree', 'BufferPrivacy', 'ResultsPrivate', 'NoRace', 'PoolConsistent'], properties=['Terminates'])


def conc_mutants(cases):
    """sensitivity: each protective mechanism switched off must violate its invariant"""
    def fn(pid, tier, sdir, harness, known):
        runs = []
        for sw, ng, prog, inv in cases:
            consts = {'NG': ng, 'Prog': '<-' + prog, 'UseMutex': True, 'ResetParser': True, 'PoolPrivate': True, 'CopyOut': True, 'TreeReadOnly': True}
            consts[sw] = False
            st = vlib.run_tlc_only(sdir, 'MC_Conc', consts, [inv], 300, 'conc-mutant-' + sw)
            if ('Invariant %s is violated' % inv) not in open(st['log'], errors='replace').read():
                raise Infra('Conc with %s=FALSE no longer violates %s' % (sw, inv))
            runs.append({k: st[k] for k in ('label', 'cmd', 'generated', 'distinct', 'wall_s')})
        return dict(tlc_runs=runs, counters={'mutant-models-killed': len(cases)}, exhaustive=True)
    return dict(kind='custom', fn=fn)


def hist_gen(label, maxops, fnset, timeout=1800, **kw):
    return dict(kind='gen', module='Gen_History', label=label, props='C05', timeout=timeout, check_count=False,
                constants=dict(MaxOps=maxops, FnSet=fnset), invariants=['LawHistoryFree', 'Emit'], **kw)


def acc_hist(maxops, timeout=900):
    """C13 as a state machine (spec/Gen_AccHist): histories of Set / direct updates, every accessor read after every step"""
    return dict(kind='gen', module='Gen_AccHist', label='accessor-histories%d' % maxops, props='C13', timeout=timeout, check_count=False,
                constants=dict(MaxOps=maxops), invariants=['LawSetExact', 'LawGetLive', 'Emit'])


def c13(tier):
    # results of functions are not locations of the document: no Set; one-step paths x function sequences
    fn = sel('one-step-funcs', 'C13', SEL(1, 'triples', 'small', funcs=True, fset='small'), ['Emit']) if tier == 'quick' else \
        sel('funcs', 'C13', SEL(2, 'triples', 'small', funcs=True, fset='small'), ['Emit'], timeout=3600)
    return simple_sel('C13', ['LawLocs'])(tier) + [fn, acc_hist(2 if tier == 'quick' else 4, 3600)]


def c05(tier):
    fph = lambda n, t=600: dict(kind='tlc', module='FilterProtoHist', label='filterproto-hist-%dcalls' % n, constants=dict(AsCoded=False, MaxCalls=n),
                                invariants=['NoProtectedWrite', 'TreeImmutable', 'CallIsPure'], timeout=t)
    if tier == 'quick':
        return [fph(2), conc_model('sequential', 1, 'P1'), hist_gen('histories3-core', 3, 'core'),
                hist_gen('histories8-simulated', 8, 'all', timeout=10, simulate=1000000, depth=10, max_cases=6000)]
    return [fph(3, 3600), conc_model('sequential', 1, 'P1'), conc_mutants([('CopyOut', 1, 'P1', 'ResultsPrivate')]),
            hist_gen('histories3-all', 3, 'all', 7200), hist_gen('histories4-core', 4, 'core', 14400),
            hist_gen('histories8-simulated', 8, 'all', timeout=300, simulate=100000000, depth=10, max_cases=400000)]


def c19_long(n_quick, n_thorough):
    """Parse histories of up to 10 calls: TLC prints the demanded outcome of every pool entry, the harness composes random
    sequences of them (the demanded outcome of a call does not depend on the calls before it -- that is the property)"""
    def fn(pid, tier, sdir, harness, known):
        vlib.write_parse_pool(sdir, 'thorough')
        st = vlib.run_tlc_only(sdir, 'Gen_ParseHist', dict(PoolFile='pool.ndjson', MaxCalls=1), ['LawDocumented', 'Emit'], 900, 'parse-pool-outcomes')
        if st['rc'] != 0 or st['error'] or not st['finished']:
            raise Infra('Gen_ParseHist (pool outcomes) failed: %s' % (st['error'] or ''))
        out = os.path.join(sdir, 'long.sum.json')
        g = subprocess.Popen([harness, 'compose-hist', '-in', st['log'], '-seed', str(vlib.SEED), '-n', str(n_quick if tier == 'quick' else n_thorough), '-len', '10'],
                             stdout=subprocess.PIPE, cwd=sdir)
        h = subprocess.Popen([harness, 'run', '-props', 'C19', '-out', out, '-crashprop', 'C19'], stdin=g.stdout, cwd=sdir)
        g.stdout.close()
        h.wait()
        if g.wait() != 0 or h.returncode != 0:
            raise Infra('compose-hist pipeline failed')
        summ = json.load(open(out))
        if summ.get('infra'):
            raise Infra('harness reported: %s' % summ['infra'][:3])
        viol, hits = [], []
        for v in summ.get('violations') or []:
            if v['property'] == pid:
                k = vlib.match_known(v, known)
                (hits if k else viol).append((k, v) if k else v)
        return dict(tlc_runs=[{k: st[k] for k in ('label', 'cmd', 'generated', 'distinct', 'wall_s')}], cases=summ['cases'], distinct=summ['distinct_nontrivial'],
                    counters=summ['counters'], samples=(summ.get('samples') or [])[:1], violations=viol, known_hits=hits, exhaustive=False)
    return dict(kind='custom', fn=fn)


def c19(tier):
    def ph(label, calls, size, timeout=1800, **kw):
        return dict(kind='gen', module='Gen_ParseHist', label=label, props='C19', timeout=timeout, check_count=False, **kw,
                    prepare=lambda sdir: vlib.write_parse_pool(sdir, size),
                    constants=dict(PoolFile='pool.ndjson', MaxCalls=calls), invariants=['LawDocumented', 'Emit'])
    if tier == 'quick':
        return [conc_model('sequential', 1, 'P1'), ph('parse-histories3', 3, 'quick'), c19_long(3000, 200000)] + config_hist('C19', 4)
    return [conc_model('sequential', 1, 'P1'), conc_mutants([('ResetParser', 1, 'P1', 'ResidueFree')]),
            ph('parse-histories3-large-pool', 3, 'thorough', 7200), ph('parse-histories4', 4, 'quick', 14400), c19_long(3000, 200000)] + config_hist('C19', 6, 3600)


def c06_sched():
    """record each goroutine's program alone, let TLC (Sched.tla) produce release schedules, force them on the real library"""
    def fn(pid, tier, sdir, harness, known):
        r = subprocess.run([harness, 'sched-record'], capture_output=True, text=True, cwd=sdir)
        if r.returncode != 0:
            raise Infra('sched-record failed: ' + r.stderr[-500:])
        pairs = json.loads(r.stdout)
        runs, cases, distinct, viol, hits, counters, samples = [], 0, 0, [], [], {}, []
        for pr in pairs:
            i = pr['pair']
            tl = lambda s: '<<' + ', '.join(str(x) for x in s) + '>>'
            open(os.path.join(sdir, 'MC_Sched_%d.tla' % i), 'w').write(
                '---- MODULE MC_Sched_%d ----\nEXTENDS Sched\nSeqsDef == <<%s>>\n====\n' % (i, ', '.join(tl(s) for s in pr['seqs'])))
            total = sum(len(s) for s in pr['seqs'])
            exhaustive = total <= 12 or (tier == 'thorough' and total <= 16)   # all release schedules when there are few enough
            st = dict(module='MC_Sched_%d' % i, label='sched-pair%d' % i, props='C06', constants={'Seqs': '<-SeqsDef', 'PairId': i},
                      invariants=['MutualExclusion', 'PendingHasHolder', 'NoDeadlock', 'Emit'])
            ts, summ = vlib.run_gen(sdir, harness, st['module'], st['constants'], st['invariants'], 'C06',
                                    1800 if exhaustive else (8 if tier == 'quick' else 120), st['label'],
                                    simulate=None if exhaustive else 1000000, depth=60, crashprop='C06', workers=None if exhaustive else 4, hworkers=6,
                                    max_cases=0 if exhaustive else (400 if tier == 'quick' else 20000))
            runs.append({k: ts[k] for k in ('label', 'cmd', 'generated', 'distinct', 'wall_s')})
            cases += summ['cases']
            distinct += summ['distinct_nontrivial']
            for k, v in summ['counters'].items():
                counters[k] = counters.get(k, 0) + v
            samples += (summ.get('samples') or [])[:1]
            for v in summ.get('violations') or []:
                if v['property'] == pid:
                    k = vlib.match_known(v, known)
                    (hits if k else viol).append((k, v) if k else v)
        counters['program-pairs'] = len(pairs)
        return dict(tlc_runs=runs, cases=cases, distinct=distinct, counters=counters, samples=samples, violations=viol, known_hits=hits, exhaustive=False)
    return dict(kind='custom', fn=fn)


def c06_race(rounds_quick, rounds_thorough):
    """free-running goroutines under the race detector; results compared with sequential results"""
    def fn(pid, tier, sdir, harness, known):
        rb = vlib.build(race=True)
        out = os.path.join(sdir, 'race.json')
        env = dict(os.environ, GORACE='halt_on_error=1 history_size=3')
        viol = []
        calls = 0
        seeds = [vlib.SEED, vlib.SEED + 1] if tier == 'quick' else [vlib.SEED + i for i in range(6)]
        for sd in seeds:
            r = subprocess.run([rb, 'race', '-seed', str(sd), '-rounds', str(rounds_quick if tier == 'quick' else rounds_thorough), '-out', out],
                               capture_output=True, text=True, cwd=sdir, env=env, timeout=3600)
            if 'WARNING: DATA RACE' in r.stderr:
                stacks = r.stderr[r.stderr.index('WARNING: DATA RACE'):][:6000]
                if 'AsaiYusuke/jsonpath' not in stacks and '/repo/' not in stacks:
                    raise Infra('data race outside the library (harness bug?):\n' + stacks[:1500])
                viol.append({'property': 'C06', 'kind': 'data-race', 'path': '(see stacks)', 'document': '', 'signature': 'race',
                             'detail': 'the race detector reports (seed %d):\n%s' % (sd, stacks), 'case': json.dumps({'fam': 'race', 'seed': sd})})
                break
            if r.returncode != 0:
                if 'panic:' in r.stderr or 'fatal error' in r.stderr:
                    viol.append({'property': 'C06', 'kind': 'crash-under-concurrency', 'path': '', 'document': '', 'signature': 'race',
                                 'detail': r.stderr[-3000:], 'case': json.dumps({'fam': 'race', 'seed': sd})})
                    break
                raise Infra('race run failed rc=%d: %s' % (r.returncode, r.stderr[-800:]))
            res = json.load(open(out))
            calls += res['calls']
            if res['mismatches']:
                viol.append({'property': 'C06', 'kind': 'result-differs-under-concurrency', 'path': res['mismatches'][0][:200], 'document': '', 'signature': 'race',
                             'detail': '\n'.join(res['mismatches'][:5]), 'case': json.dumps({'fam': 'race', 'seed': sd})})
                break
        hits = []
        v2 = []
        for v in viol:
            k = vlib.match_known(v, known)
            (hits if k else v2).append((k, v) if k else v)
        return dict(tlc_runs=[], cases=calls, distinct=0, counters={'race-detector-calls': calls, 'race-runs': len(seeds)}, samples=[], violations=v2, known_hits=hits, exhaustive=False)
    return dict(kind='custom', fn=fn)


def c06_stress():
    def fn(pid, tier, sdir, harness, known):
        tr = os.path.join(sdir, 'stress.ndjson')
        r = subprocess.run([harness, 'stress-trace', '-out', tr, '-max', '4000' if tier == 'quick' else '40000'], capture_output=True, text=True, cwd=sdir)
        if r.returncode != 0:
            raise Infra('stress-trace failed: ' + r.stderr[-500:])
        n = sum(1 for _ in open(tr))
        st = vlib.run_tlc_only(sdir, 'Trace_Conc', {'TraceFile': 'stress.ndjson'}, [], 900, 'trace-conc', workers=1)
        if st['rc'] != 0 or st['error']:
            raise Infra('Trace_Conc failed: %s' % (st['error'] or ''))
        viol = []
        overlaps = open(st['log'], errors='replace').read().count('<<"overlap"')
        if overlaps:
            print('[%s/%s] NOTE: %d parser sections overlap in the recorded hook trace: Parse is not serialised by one mutex in this tree; '
                  'Conc!MutualExclusion does not describe it (no verdict from it: the race detector and the sequential comparison decide)' % (pid, tier, overlaps))
        if st['distinct'] != n + 1:
            ev = open(tr).read().splitlines()
            k = st['distinct'] - 1
            ctx = ev[max(0, k - 6):k + 1]
            viol.append({'property': 'C06', 'kind': 'hook-trace-rejected', 'path': 'event %d of %d' % (k + 1, n), 'document': '', 'signature': 'trace',
                         'detail': 'the recorded hook trace is not a behaviour of Conc: event %s is not enabled (a pooled buffer handed to a second goroutine while the first still holds it, or given back by somebody who does not hold it). Preceding events: %s' % (ev[k] if k < len(ev) else '?', ' '.join(ctx)),
                         'case': json.dumps({'fam': 'trace', 'events': ctx})})
        return dict(tlc_runs=[{k: st[k] for k in ('label', 'cmd', 'generated', 'distinct', 'wall_s')}], cases=1, distinct=0,
                    counters={'hook-events-validated': st['distinct'] - 1, 'hook-events-recorded': n, 'parser-sections-overlapping': overlaps}, samples=[], violations=viol, known_hits=[], exhaustive=False)
    return dict(kind='custom', fn=fn)


def c06(tier):
    models = [conc_model('2a', 2, 'P2a'), conc_model('2b', 2, 'P2b'), conc_model('2c', 2, 'P2c'), conc_model('3', 3, 'P3')]
    if tier == 'quick':
        return models + [c06_sched(), c06_race(6, 40), c06_stress()]
    muts = conc_mutants([('UseMutex', 2, 'P2b', 'MutualExclusion'), ('ResetParser', 1, 'P1', 'ResidueFree'), ('PoolPrivate', 2, 'P2c', 'BufferPrivacy'),
                         ('CopyOut', 1, 'P1', 'ResultsPrivate'), ('TreeReadOnly', 2, 'P2c', 'NoRace')])
    return models + [muts, c06_sched(), c06_race(6, 40), c06_stress()]


def c02(tier):
    cn = dict(kind='tlc', module='CmpNormalize', label='cmp-normalize-terminates', constants=dict(AsCoded=False),
              invariants=['BuiltRight', 'AtMostOneSwap'], properties=['Terminates'], timeout=120, workers=1)
    if tier == 'quick':
        return [cn, parse_gen('soup2-full', 'C02', 2, 'full'), parse_gen('soup3-reduced', 'C02', 3, 'reduced'),
                roundtrip('sentences-atoms', 'C02', 'atoms'), traceB_parse(6000, 60000, 'C02')]
    return [cn, parse_gen('soup3-full', 'C02', 3, 'full', 3600), parse_gen('soup4-reduced', 'C02', 4, 'reduced', 7200),
            roundtrip('sentences-atoms', 'C02', 'atoms'), roundtrip('sentences-steps', 'C02', 'steps', 7200), traceB_parse(6000, 60000, 'C02')]


def c17(tier):
    if tier == 'quick':
        return [parse_gen('soup2-full', 'C17', 2, 'full'), parse_gen('soup3-reduced', 'C17', 3, 'reduced'),
                traceB_parse(8000, 80000, 'C17')]
    return [parse_gen('soup3-full', 'C17', 3, 'full', 3600), parse_gen('soup4-reduced', 'C17', 4, 'reduced', 7200),
            roundtrip('sentences-atoms', 'C17', 'atoms'), roundtrip('sentences-steps', 'C17', 'steps', 7200), traceB_parse(8000, 80000, 'C17')]


CHECKS = {
    'C06': dict(stages=c06, level='model_checking'),
    'C19': dict(stages=c19, level='model_checking'),
    'C05': dict(stages=c05, level='model_checking'),
    'C09': dict(stages=c09, level='model_checking'),
    'C10': dict(stages=c10, level='model_checking'),
    'C20': dict(stages=c20, level='model_checking'),
    'C01': dict(stages=c01, level='model_checking'),
    'C02': dict(stages=c02, level='model_checking'),
    'C03': dict(stages=simple_sel('C03', ['LawFailsIffEmpty'], extra=[lambda: SLICES('C03'), lambda: filt('filter-atoms', 'C03', 2, 1, 'both', 'all'), lambda: filt('filter-deep-eq', 'C03', 2, 1, 'both', 'deep'), lambda: traceB_eval(4000, 60000, 'C03', EVAL_ATTR)]), level='model_checking'),
    'C04': dict(stages=simple_sel('C04', extra=[lambda: filterproto(1), lambda: filt('filters', 'C04', 2, 2, 'arr', 'two'), lambda: traceB_eval(3000, 60000, 'C04', EVAL_ATTR),
                                                 lambda: sel('one-step-funcs', 'C04', SEL(1, 'triples', 'small', funcs=True, fset='small'), ['Emit']),
                                                 lambda: dict(kind='gen', module='Gen_Opaque', label='documents-with-typed-containers', props='C04,C12', timeout=1800, check_count=False,
                                                              constants=dict(MaxLen=2, Templates='few', TypeSet='containers'), invariants=['Emit'])], quick_scope='triples'), level='model_checking'),
    'C07': dict(stages=c07, level='model_checking'),
    'C08': dict(stages=c08, level='model_checking'),
    'C11': dict(stages=c11, level='model_checking'),
    'C12': dict(stages=c12, level='model_checking'),
    'C13': dict(stages=c13, level='model_checking'),
    'C14': dict(stages=c14, level='model_checking'),
    'C15': dict(stages=c15, level='model_checking'),
    'C16': dict(stages=c16, level='model_checking'),
    'C17': dict(stages=c17, level='model_checking'),
    'C18': dict(stages=c18, level='model_checking'),
}


def run(pid, tier, sdir, t0):
    spec = CHECKS[pid]
    harness = vlib.build()
    vlib.prepare_spec(sdir)
    known = vlib.load_known()
    tlc_runs, counters, samples = [], {}, []
    cases = distinct = 0
    viol, known_hits = [], []
    exhaustive = True
    for st in spec['stages'](tier):
        if st.get('prepare'):
            st['prepare'](sdir)
        if st['kind'] == 'gen':
            log('[%s/%s] stage %s: TLC %s -> harness (props %s)' % (pid, tier, st['label'], st['module'], st['props']))
            ts, summ = vlib.run_gen(sdir, harness, st['module'], st['constants'], st['invariants'], st['props'],
                                    st['timeout'], st['label'], max_cases=st.get('max_cases', 0), opts=st.get('opts', ''),
                                    simulate=st.get('simulate'), depth=st.get('depth'), crashprop=pid, workers=st.get('workers'))
            if st.get('simulate'):
                exhaustive = False
            tlc_runs.append({k: ts[k] for k in ('label', 'cmd', 'generated', 'distinct', 'wall_s')})
            tlc_runs[-1]['constants'] = st['constants']
            tlc_runs[-1]['invariants'] = st['invariants']
            cases += summ['cases']
            distinct += summ['distinct_nontrivial']
            for k, v in summ['counters'].items():
                counters[k] = counters.get(k, 0) + v
            samples += (summ.get('samples') or [])[:2]
            nv0 = len(viol) + len(known_hits)
            for v in summ.get('violations') or []:
                if v['property'] != pid:
                    continue
                k = vlib.match_known(v, known)
                if k:
                    known_hits.append((k, v))
                else:
                    viol.append(v)
            lawfails = sum(v for k, v in summ['counters'].items() if k.startswith('lawfail:'))
            if lawfails and len(viol) + len(known_hits) == nv0:
                raise Infra('%d model-level laws failed in %s (%s) but the real library shows no deviation: the specification (or jsonpath.peg vs jsonpath.peg.go) is off' %
                            (lawfails, st['label'], [k for k in summ['counters'] if k.startswith('lawfail:')]))
            if st.get('check_count', True) and ts['distinct'] and not st.get('simulate') and summ['cases'] - lawfails not in (ts['distinct'], ts['distinct'] - ts['init']) and not st.get('max_cases'):
                raise Infra('replayer saw %d cases but TLC found %d distinct states (%s)' % (summ['cases'], ts['distinct'], st['label']))
        elif st['kind'] == 'tlc':
            log('[%s/%s] stage %s: TLC %s (model only)' % (pid, tier, st['label'], st['module']))
            ts = vlib.run_tlc_only(sdir, st['module'], st['constants'], st['invariants'], st['timeout'], st['label'],
                                   properties=st.get('properties', ()), spec=st.get('spec', 'Spec'), workers=st.get('workers'))
            if ts['rc'] != 0 or ts['error'] or not ts['finished']:
                raise Infra('model-level check %s failed (a bug in the specification, not a verdict):\n%s' % (st['label'], ts['error'] or open(ts['log'], errors='replace').read()[-3000:]))
            tlc_runs.append({k: ts[k] for k in ('label', 'cmd', 'generated', 'distinct', 'wall_s')})
        elif st['kind'] == 'custom':
            r = st['fn'](pid, tier, sdir, harness, known)
            tlc_runs += r.get('tlc_runs', [])
            cases += r.get('cases', 0)
            distinct += r.get('distinct', 0)
            for k, v in r.get('counters', {}).items():
                counters[k] = counters.get(k, 0) + v
            samples += r.get('samples', [])[:3]
            viol += r.get('violations', [])
            known_hits += r.get('known_hits', [])
            exhaustive = exhaustive and r.get('exhaustive', False)
    kinds = {k[5:]: v for k, v in counters.items() if k.startswith('kind:')}
    other = {k: v for k, v in counters.items() if not k.startswith('kind:')}
    nontrivial_rule = ('distinct = distinct (step-kind sequence, observed response) pairs among cases whose real response '
                       'has more than one value or is an error; counted by the harness')
    coverage = {
        'states': sum(r['distinct'] for r in tlc_runs),
        'transitions': sum(r['generated'] for r in tlc_runs),
        'traces_validated_against_impl': cases,
        'samples': [json.loads(s) if s.startswith('{') and not s.endswith('...') else s for s in samples[:4]] or ['(none)'],
        'evaluations': cases,
        'distinct_nontrivial': distinct,
        'rule': nontrivial_rule,
        'exhaustive': exhaustive,
        'tlc_runs': tlc_runs,
        'oracle_counters': other,
        'cases_per_step_kind_sequence': dict(sorted(kinds.items(), key=lambda kv: -kv[1])[:60]),
        'step_kind_sequences_covered': len(kinds),
        'known_findings_matched': len(known_hits),
    }
    return vlib.finish(pid, tier, t0, spec['level'], coverage, TRUSTED + spec.get('assumptions', []), viol, known_hits)


def replay(path):
    v = json.load(open(path))
    try:
        fam = json.loads(v['case'].splitlines()[-1]).get('fam')
    except Exception:
        fam = None
    if fam == 'race':
        rb = vlib.build(race=True)
        seed = json.loads(v['case'])['seed']
        r = subprocess.run([rb, 'race', '-seed', str(seed), '-rounds', '6'], capture_output=True, text=True,
                           env=dict(os.environ, GORACE='halt_on_error=1 history_size=3'))
        if 'WARNING: DATA RACE' in r.stderr or r.returncode != 0:
            print('REPRODUCED property=%s kind=%s\n%s' % (v['property'], v['kind'], r.stderr[:4000]))
            return 1
        out = json.loads(r.stdout) if r.stdout.strip().startswith('{') else {}
        if out.get('mismatches'):
            print('REPRODUCED property=%s: %s' % (v['property'], out['mismatches'][:3]))
            return 1
        print('not reproduced on the current tree (races are schedule dependent: run it a few times)')
        return 0
    if fam == 'trace':
        print('recorded hook events around the rejected one: %s' % v['case'])
        print('re-run `tools/check C06 quick` to record a new trace on the current tree')
        return 0
    harness = vlib.build()
    sdir = vlib.scratch()
    try:
        cf = os.path.join(sdir, 'case.ndjson')
        open(cf, 'w').write(v['case'] + '\n')
        out = os.path.join(sdir, 'out.json')
        cmd = [harness, 'run', '-props', v.get('props') or v['property'], '-in', cf, '-out', out, '-workers', '1']
        if v.get('opts'):
            cmd += ['-opts', v['opts']]
        subprocess.run(cmd, check=False)
        s = json.load(open(out))
        hits = [x for x in (s.get('violations') or []) if x['property'] == v['property']]
        for x in hits:
            print('REPRODUCED property=%s kind=%s path=%s\n  document=%s\n  detail=%s' % (x['property'], x['kind'], x['path'], x['document'][:400], x['detail'][:800]))
        if not hits:
            print('not reproduced on the current tree')
        return 1 if hits else 0
    finally:
        import shutil
        shutil.rmtree(sdir, ignore_errors=True)
