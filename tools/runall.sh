#!/bin/sh
# usage: runall.sh quick|thorough [Cxx ...]   -> one line per check: id rc seconds
tier=${1:-quick}; shift
cd "$(dirname "$0")/.."
ids="$@"; [ -z "$ids" ] && ids=$(python3 -c "import json;print(' '.join(c['property_id'] for c in json.load(open('MANIFEST.json'))['checks']))")
for p in $ids; do
  s=$(date +%s); tools/check $p $tier > ${RUNALL_LOG:-/tmp/runall}.$tier.$p.out 2>&1; rc=$?; e=$(date +%s)
  echo "$p rc=$rc $((e-s))s $(grep -c '^VIOLATION' ${RUNALL_LOG:-/tmp/runall}.$tier.$p.out) violations $(grep -m1 'INFRA' ${RUNALL_LOG:-/tmp/runall}.$tier.$p.out | cut -c1-150)"
done
