#!/usr/bin/env python3
"""prints a markdown table of what the last run of every check covered (from evidence/*.json)"""
import json, glob, os
V = os.path.dirname(os.path.dirname(os.path.abspath(__file__)))
print('| check | tier | stages (TLC runs: label = distinct states) | TLC states | cases run against the real library | wall s |')
print('|---|---|---|---|---|---|')
for f in sorted(glob.glob(os.path.join(V, 'evidence', 'C*.json'))):
    e = json.load(open(f)); c = e['coverage']
    stages = ', '.join('%s = %d' % (r['label'], r['distinct']) for r in c.get('tlc_runs', []))
    print('| %s | %s | %s | %d | %d | %s |' % (e['property_id'], e['tier'], stages, c.get('states', 0), c.get('traces_validated_against_impl', 0), e['wall_s']))
