#!/bin/sh
# usage: seedrun.sh <seeded-id> <tier> <Cxx> [Cxx...]   apply the seeded change to /repo, run the checks, undo
# prints one line per check: <seeded-id> <Cxx> rc=<n>
id=$1; tier=$2; shift 2
cd "$(dirname "$0")/.."
git -C /repo diff --quiet || { echo "/repo has uncommitted changes"; exit 2; }
git -C /repo apply "$PWD/seeded/$id/patch.diff" || exit 2
for p in "$@"; do
  tools/check $p $tier > /tmp/seedrun.$id.$p.out 2>&1; rc=$?
  echo "$id $p rc=$rc $(grep -m1 -A1 '^VIOLATION' /tmp/seedrun.$id.$p.out | tr '\n' ' ' | cut -c1-300)"
done
git -C /repo checkout -- .
