package main

// Direction B (code -> spec): drivers that make the real library do things and record what it did
// as NDJSON for TLC (Trace_Parse / Trace_Eval).  The Go-side assertions that TLA+ must not
// re-implement (shape of the result, `near`, snapshot of the document) are checked here.

import (
	"bufio"
	"encoding/hex"
	"encoding/json"
	"flag"
	"fmt"
	"math"
	"math/rand"
	"os"
	"regexp"
	"strconv"
	"strings"
	"unicode/utf8"
)

type recCase struct {
	Fam string   `json:"fam"`
	ID  int      `json:"id"`
	Hex string   `json:"hex"` // the path as bytes (may be invalid UTF-8)
	FF  []string `json:"ff"`
	AF  []string `json:"af"`
	Doc string   `json:"doc,omitempty"` // JSON text of the document (evaluation records)
	Src string   `json:"src,omitempty"` // generator that produced it
}

type numTab struct {
	B      int   `json:"b"`
	E      int   `json:"e"`
	Iok    bool  `json:"iok"`
	Iv     int   `json:"iv"`
	Fok    bool  `json:"fok"`
	Fv     int64 `json:"fv"`
	Fexact bool  `json:"fexact"`
}
type reTab struct {
	B    int     `json:"b"`
	E    int     `json:"e"`
	Ok   bool    `json:"ok"`
	Strs [][]int `json:"strs"`
	Ms   []bool  `json:"ms"`
}

func satInt(v int) int {
	switch {
	case v > 1000000:
		if v == math.MaxInt64 {
			return 1000002
		}
		return 1000001
	case v < -1000000:
		if v == math.MinInt64 {
			return -1000003
		}
		if v == math.MinInt64+1 {
			return -1000002
		}
		return -1000001
	}
	return v
}

func isDigit(r rune) bool { return r >= '0' && r <= '9' }
func isNumChar(r rune) bool {
	return r == '-' || r == '+' || r == '.' || isDigit(r) || (r >= 'a' && r <= 'z') || (r >= 'A' && r <= 'Z')
}

// side tables over the rune buffer: every maximal lNumber / indexNumber text at every start position
func numTables(rs []rune) []numTab {
	out := []numTab{}
	seen := map[[2]int]bool{}
	add := func(b, e int) {
		if seen[[2]int{b, e}] {
			return
		}
		seen[[2]int{b, e}] = true
		t := string(rs[b:e])
		nt := numTab{B: b, E: e}
		if v, err := strconv.Atoi(t); err == nil {
			nt.Iok, nt.Iv = true, satInt(v)
		}
		if f, err := strconv.ParseFloat(t, 64); err == nil {
			nt.Fok = true
			m := f * 1000
			if math.Abs(f) < 2e6 && math.Abs(m-math.Round(m)) < 1e-9 {
				nt.Fexact, nt.Fv = true, int64(math.Round(m))
			}
		}
		out = append(out, nt)
	}
	for b := 0; b < len(rs); b++ {
		i := b
		if rs[i] == '-' || rs[i] == '+' {
			i++
		}
		if i >= len(rs) || !isDigit(rs[i]) {
			continue
		}
		e := i
		for e < len(rs) && isDigit(rs[e]) {
			e++
		}
		add(b, e) // indexNumber
		e2 := i + 1
		for e2 < len(rs) && isNumChar(rs[e2]) {
			e2++
		}
		add(b, e2) // lNumber
	}
	return out
}

// regex texts: after every '/', the maximal match of ( '\\' [\\/] / [^/] )*
func reTables(rs []rune, strs []string) []reTab {
	out := []reTab{}
	for b := 1; b <= len(rs); b++ {
		if rs[b-1] != '/' {
			continue
		}
		e := b
		for e < len(rs) {
			if rs[e] == '\\' && e+1 < len(rs) && (rs[e+1] == '\\' || rs[e+1] == '/') {
				e += 2
				continue
			}
			if rs[e] == '/' {
				break
			}
			e++
		}
		t := string(rs[b:e])
		rt := reTab{B: b, E: e, Strs: [][]int{}, Ms: []bool{}}
		if re, err := regexp.Compile(t); err == nil {
			rt.Ok = true
			for _, s := range strs {
				rt.Strs = append(rt.Strs, toCps(s))
				rt.Ms = append(rt.Ms, re.MatchString(s))
			}
		}
		out = append(out, rt)
	}
	return out
}

func namesToCps(ns []string) [][]int {
	out := [][]int{}
	for _, n := range ns {
		out = append(out, toCps(n))
	}
	return out
}

func init() {
	families["recparse"] = func(w *worker, inner []byte) {
		var c recCase
		if err := json.Unmarshal(inner, &c); err != nil {
			w.infra("bad recparse case: " + err.Error())
			return
		}
		w.recordParse(&c, inner)
	}
	commands["gen-parse"] = genParseMain
}

func (w *worker) recordParse(c *recCase, raw []byte) {
	P := w.props
	b, _ := hex.DecodeString(c.Hex)
	text := string(b)
	rs := []rune(text)
	w.count("cases", 1)
	w.count("src:"+c.Src, 1)
	if !utf8.ValidString(text) {
		w.count("invalid-utf8", 1)
	}
	cfg := cfgFromNames(namesToCps(c.FF), namesToCps(c.AF), false)
	o := observeParse(text, &cfg)
	w.distinct(o.Cls + "|" + o.Why)
	w.count("class:"+o.Cls, 1)
	shapeProp := primary(P, "C02", "C17")
	if o.Shape != "" {
		w.viol(shapeProp, "undocumented-outcome", text, "functions="+strings.Join(append(c.FF, c.AF...), ","), o.Shape, o.Cls, raw)
		return
	}
	// other configurations must keep the documented shape too (C02)
	if P["C02"] {
		acc := cfgFromNames(namesToCps(c.FF), namesToCps(c.AF), true)
		for _, cf := range []struct {
			n string
			o observed
		}{{"accessor", observeParse(text, &acc)}, {"none", observeParse(text, nil)}} {
			w.count("C02:parses", 1)
			if cf.o.Shape != "" {
				w.viol("C02", "undocumented-outcome", text, "config="+cf.n, cf.o.Shape, cf.o.Cls, raw)
			}
		}
	}
	if o.Cls == "syntax" && P["C17"] {
		rest, inside := restFrom(text, o.Pos)
		if !inside {
			w.viol("C17", "position-outside-path", text, "", o.Msg, "syntax", raw)
		} else if o.Near != rest {
			w.viol("C17", "near-is-not-the-rest", text, "", fmt.Sprintf("position=%d: near=%q but the rest of the path from that character is %q", o.Pos, o.Near, rest), "syntax", raw)
		}
	}
	txt := o.Text
	if o.Cls == "arg" {
		// "argument=<text>, error=<...>": the argument is a text of the path; find the longest prefix that is one
		if i := strings.LastIndex(txt, ", error="); i >= 0 {
			txt = txt[:i]
			for !strings.Contains(text, txt) && strings.Contains(txt, ", error=") {
				txt = txt[:strings.LastIndex(txt, ", error=")]
			}
		}
	}
	rec := map[string]interface{}{
		"id":   c.ID,
		"s":    toCps(text),
		"cfg":  map[string]interface{}{"ff": namesToCps(c.FF), "af": namesToCps(c.AF)},
		"out":  map[string]interface{}{"cls": o.Cls, "pos": o.Pos, "why": o.Why, "text": toCps(txt)},
		"tabs": map[string]interface{}{"mode": "tables", "nums": numTables(rs), "res": reTables(rs, nil)},
	}
	if strings.Count(text, "?(") > 4 {
		// the specification's PEG interpreter has no memo table: every filter nesting level costs a
		// factor 4.  Deeper strings get the Go-side assertions only.
		w.count("deep-nesting(Go-side checks only)", 1)
		return
	}
	rb, _ := json.Marshal(rec)
	w.res.Records = append(w.res.Records, rb)
}

// ---------------------------------------------------------------- generators

type gExpr struct {
	K   string   `json:"k"`
	Es  []gExpr  `json:"es"`
	E   *gExpr   `json:"e"`
	S   []int    `json:"s"`
	Neg bool     `json:"neg"`
	Rs  [][2]int `json:"rs"`
	N   string   `json:"n"`
}
type grammarJSON struct {
	Start      string           `json:"start"`
	Rules      map[string]gExpr `json:"rules"`
	Boundaries []int            `json:"boundaries"`
}

type gen struct {
	rnd *rand.Rand
	g   *grammarJSON
	cov map[string]int
}

var interesting = []rune{' ', '$', '@', '.', '[', ']', '*', '\'', '"', ',', ':', '?', '(', ')', '=', '!', '<', '>', '~', '/', '&', '|', '\\', '-', '+', '0', '1', '9', 'a', 'e', 'u', 'x', '_', 0x7f, 0x1f, 0, 0xe9, 0x65e5, 0x1f600, 0xfffd, 0xffff, 0x10000}

func (g *gen) anyRune() rune {
	switch g.rnd.Intn(6) {
	case 0:
		return interesting[g.rnd.Intn(len(interesting))]
	case 1:
		return rune(g.g.Boundaries[g.rnd.Intn(len(g.g.Boundaries))])
	case 2:
		return rune(0x80 + g.rnd.Intn(0x2000))
	case 3:
		return rune(0x10000 + g.rnd.Intn(0x1000))
	}
	return rune(32 + g.rnd.Intn(95))
}

func inRanges(r rune, rs [][2]int) bool {
	for _, x := range rs {
		if int(r) >= x[0] && int(r) <= x[1] {
			return true
		}
	}
	return false
}

// walk produces a random derivation; lookaheads and ordered choice are ignored on purpose,
// so the output contains sentences and near-sentences
func (g *gen) walk(e *gExpr, depth int, out *[]rune, alt string) {
	if len(*out) > 300 {
		return
	}
	switch e.K {
	case "lit":
		for _, c := range e.S {
			*out = append(*out, rune(c))
		}
	case "any":
		*out = append(*out, g.anyRune())
	case "cls":
		for try := 0; try < 50; try++ {
			var r rune
			if !e.Neg && g.rnd.Intn(4) > 0 {
				x := e.Rs[g.rnd.Intn(len(e.Rs))]
				// favour the boundaries of the range
				switch g.rnd.Intn(4) {
				case 0:
					r = rune(x[0])
				case 1:
					r = rune(x[1])
				default:
					r = rune(x[0] + g.rnd.Intn(x[1]-x[0]+1))
				}
			} else {
				r = g.anyRune()
			}
			if inRanges(r, e.Rs) != e.Neg {
				*out = append(*out, r)
				return
			}
		}
	case "nt":
		if depth > 14 {
			return
		}
		r := g.g.Rules[e.N]
		g.walk(&r, depth+1, out, e.N)
	case "seq":
		for i := range e.Es {
			g.walk(&e.Es[i], depth, out, alt)
		}
	case "alt":
		i := g.rnd.Intn(len(e.Es))
		if depth > 8 { // steer towards termination: prefer the last (usually simplest) alternatives
			i = len(e.Es) - 1 - g.rnd.Intn(1+len(e.Es)/2)
		}
		g.cov[fmt.Sprintf("alt:%s/%d", alt, i)]++
		g.walk(&e.Es[i], depth+1, out, alt)
	case "opt":
		if g.rnd.Intn(2) == 0 {
			g.walk(e.E, depth, out, alt)
		}
	case "star":
		n := g.rnd.Intn(3)
		if depth > 8 {
			n = g.rnd.Intn(2)
		}
		for i := 0; i < n; i++ {
			g.walk(e.E, depth+1, out, alt)
		}
	case "plus":
		n := 1 + g.rnd.Intn(2)
		for i := 0; i < n; i++ {
			g.walk(e.E, depth+1, out, alt)
		}
	case "cap":
		g.walk(e.E, depth, out, alt)
	case "not", "and", "act":
	}
}

func (g *gen) sentence() string {
	var out []rune
	r := g.g.Rules["jsonpath"]
	g.walk(&r, 0, &out, "jsonpath")
	return string(out)
}

// focused derivations: a random derivation of ONE rule embedded in a context in which that rule is
// reachable, so that every alternative and every class boundary of the rule meets the generated parser
// (translation validation of jsonpath.peg.go needs each of them exercised, not only whole paths)
var ruleContexts = [][3]string{
	{"regex", "$[?(@.a=~/", "/)]"}, {"regex", "$[?(@=~ /", "/ )]"}, {"lString", "$[?(@.a==", ")]"}, {"lString", "$[?(", "!=@.a)]"},
	{"lNumber", "$[?(@.a>", ")]"}, {"lNumber", "$[?(@.a==", ")]"}, {"lBool", "$[?(@.a==", ")]"}, {"lNull", "$[?(@.a!=", ")]"}, {"qLiteral", "$[?(", "==@.a)]"},
	{"comparator", "$[?(", ")]"}, {"query", "$[?(", ")]"}, {"basicQuery", "$[?(", ")]"}, {"andQuery", "$[?(", ")]"}, {"jsonpathFilter", "$[?(", ")]"},
	{"qParam", "$[?(", "==1)]"}, {"qNumericParam", "$[?(", "<=1)]"}, {"singleJsonpathFilter", "$[?(", "=~/a/)]"},
	{"singleQuotedNodeIdentifier", "$[", "]"}, {"doubleQuotedNodeIdentifier", "$[", "]"}, {"bracketChildIdentifier", "$[", "]"}, {"bracketNodeIdentifier", "$[", ",'a']"},
	{"union", "$[", "]"}, {"index", "$[", "]"}, {"slice", "$[", "]"}, {"anyIndex", "$[", ":1]"}, {"indexNumber", "$[", "]"}, {"indexNumber", "$[0:", ":2]"},
	{"dotChildIdentifier", "$.", ""}, {"dotChildIdentifier", "$..", ".b"}, {"function", "$.a", ""}, {"functionName", "$.a.", "()"}, {"childNode", "$", ""}, {"childNode", "$.a", "[0]"},
	{"script", "$[", "]"}, {"command", "$[(", ")]"}, {"filter", "$[", "]"}, {"qualifier", "$[", "]"}, {"hexDigits", "$['\\", "']"}, {"hexDigits", "$[\"\\", "\"]"},
	{"signsWithoutHyphenUnderscore", "$.\\", "a"}, {"bracketNode", "$", ""}, {"bracketNode", "", ".a"}, {"rootNode", "", ".a"}, {"jsonpathParameter", "$[?(", ")]"},
	{"continuedJsonpath", "$", ""}, {"parameterRootNode", "$[?(", ".a)]"}, {"wildcardIdentifier", "$.", ""}, {"wildcardIdentifier", "$[", ",*]"},
	{"logicOr", "$[?(@.a", "@.b)]"}, {"logicAnd", "$[?(@.a", "@.b)]"}, {"logicNot", "$[?(", "@.a)]"}, {"sep", "$[0", "1]"}, {"sepSlice", "$[0", "1]"},
}

func (g *gen) focused() (string, string) {
	c := ruleContexts[g.rnd.Intn(len(ruleContexts))]
	r, ok := g.g.Rules[c[0]]
	if !ok {
		return g.sentence(), "grammar-walk"
	}
	var out []rune
	g.walk(&r, 4, &out, c[0])
	body := string(out)
	if g.rnd.Intn(3) == 0 {
		body = g.mutate1(body)
	}
	g.cov["focused:"+c[0]]++
	return c[1] + body + c[2], "focused-rule"
}

// exactly one small edit
func (g *gen) mutate1(s string) string {
	rs := []rune(s)
	switch g.rnd.Intn(3) {
	case 0:
		p := g.rnd.Intn(len(rs) + 1)
		rs = append(rs[:p], append([]rune{g.anyRune()}, rs[p:]...)...)
	case 1:
		if len(rs) > 0 {
			p := g.rnd.Intn(len(rs))
			rs = append(rs[:p], rs[p+1:]...)
		}
	case 2:
		if len(rs) > 0 {
			rs[g.rnd.Intn(len(rs))] = g.anyRune()
		}
	}
	return string(rs)
}

func (g *gen) mutate(s string) string {
	rs := []rune(s)
	n := 1 + g.rnd.Intn(3)
	for i := 0; i < n; i++ {
		switch g.rnd.Intn(4) {
		case 0: // insert
			p := g.rnd.Intn(len(rs) + 1)
			rs = append(rs[:p], append([]rune{g.anyRune()}, rs[p:]...)...)
		case 1: // delete
			if len(rs) > 0 {
				p := g.rnd.Intn(len(rs))
				rs = append(rs[:p], rs[p+1:]...)
			}
		case 2: // replace
			if len(rs) > 0 {
				rs[g.rnd.Intn(len(rs))] = g.anyRune()
			}
		case 3: // duplicate a span
			if len(rs) > 1 {
				a := g.rnd.Intn(len(rs))
				b := a + 1 + g.rnd.Intn(len(rs)-a)
				seg := append([]rune{}, rs[a:b]...)
				rs = append(rs[:b], append(seg, rs[b:]...)...)
			}
		}
	}
	if len(rs) > 256 {
		rs = rs[:256]
	}
	return string(rs)
}

func (g *gen) garbage() string {
	n := g.rnd.Intn(24)
	if g.rnd.Intn(3) == 0 {
		b := make([]byte, n)
		g.rnd.Read(b)
		if g.rnd.Intn(2) == 0 {
			return "$." + string(b)
		}
		return string(b)
	}
	rs := make([]rune, n)
	for i := range rs {
		rs[i] = g.anyRune()
	}
	return string(rs)
}

// deep nesting / long inputs up to 256 characters
func (g *gen) stress() string {
	switch g.rnd.Intn(8) {
	case 5:
		return "$" + strings.Repeat("[*,*,*]", 1+g.rnd.Intn(36))
	case 6:
		return "$" + strings.Repeat([]string{"[*,*]", "['a','b']", "[*,'a']"}[g.rnd.Intn(3)], 1+g.rnd.Intn(50))
	case 7:
		return "$.." + strings.Repeat("['a','b']", 1+g.rnd.Intn(28)) + ".c"
	case 0:
		d := 2 + g.rnd.Intn(40)
		return "$" + strings.Repeat("[?(@", d) + ".a" + strings.Repeat(")]", d)
	case 1:
		return "$" + strings.Repeat("..a", 1+g.rnd.Intn(80))
	case 2:
		return "$[" + strings.Repeat("0,", g.rnd.Intn(120)) + "0]"
	case 3:
		d := 1 + g.rnd.Intn(50)
		return "$[?(" + strings.Repeat("(", d) + "@.a" + strings.Repeat(")", d) + ")]"
	}
	return "$[?(" + strings.Repeat("@.a==1&&", g.rnd.Intn(28)) + "@.b)]"
}

func genParseMain(args []string) {
	fs := flag.NewFlagSet("gen-parse", flag.ExitOnError)
	seed := fs.Int64("seed", 1, "")
	n := fs.Int("n", 1000, "number of generated strings besides the corpus")
	corpus := fs.String("corpus", "", "file with one JSON string (a path) per line")
	gpath := fs.String("grammar", "", "grammar.json from peg2tla")
	fs.Parse(args)
	var gj grammarJSON
	gb, err := os.ReadFile(*gpath)
	if err == nil {
		err = json.Unmarshal(gb, &gj)
	}
	if err != nil {
		fmt.Fprintln(os.Stderr, "grammar:", err)
		os.Exit(2)
	}
	g := &gen{rnd: rand.New(rand.NewSource(*seed)), g: &gj, cov: map[string]int{}}
	var paths []string
	if *corpus != "" {
		f, err := os.Open(*corpus)
		if err != nil {
			fmt.Fprintln(os.Stderr, err)
			os.Exit(2)
		}
		sc := bufio.NewScanner(f)
		sc.Buffer(make([]byte, 1<<20), 1<<22)
		for sc.Scan() {
			var s string
			if json.Unmarshal(sc.Bytes(), &s) == nil {
				paths = append(paths, s)
			}
		}
	}
	out := bufio.NewWriter(os.Stdout)
	defer out.Flush()
	id := 0
	emit := func(s, src string) {
		if len([]rune(s)) > 256 {
			s = string([]rune(s)[:256])
		}
		id++
		ff, af := []string{"f1", "twice", "errFilter"}, []string{"g1", "max", "min"}
		if id%5 == 0 {
			ff, af = nil, nil
		}
		b, _ := json.Marshal(recCase{Fam: "recparse", ID: id, Hex: hex.EncodeToString([]byte(s)), FF: ff, AF: af, Src: src})
		out.Write(b)
		out.WriteByte('\n')
	}
	for _, p := range paths {
		emit(p, "corpus")
	}
	// two-call sequences: a path that aborts inside a filter operand (at each action that can abort),
	// directly followed by a valid path for each way a path can begin
	aborting := []string{`$.x[?(@.b.nosuch())]`, `$[?(1 == $.b.nosuch())]`, `$.x[?(@.a == $[99999999999999999999])]`, `$[?(@.a > 1 && @[(x)])]`,
		`$.x[?(@.a == 1e999)]`, `$.x[?(@.a =~ /(/)]`, `$.x[?(@['\x'])]`, `$.x[?(@.a == $..b)]`, `$.x[?(@.a == @.b)]`, `$.x[?(@.a`, `$.x[?(@.a.twice()`}
	following := []string{`[?(@.a)]`, `[?(!@.a)]`, `a`, `[0].a`, `$`, `*`, `['a','b']`, `[?(@.a == 1)]`, `$[?(@.a)]`, `$.a.twice()`}
	for _, a := range aborting {
		for _, b := range following {
			emit(a, "sequence")
			emit(b, "sequence")
		}
	}
	// every operator between every pair of operand forms (the grammar admits only some of them)
	forms := []string{`1`, `-1.5`, `'s'`, `"s"`, `true`, `null`, `@.a`, `$.a`, `@`, `$`, `@.a.f1()`, `$[0]`, `@[*]`}
	for _, op := range []string{"==", "!=", "<", "<=", ">", ">=", "=~"} {
		for _, l := range forms {
			for _, r := range forms {
				if op == "=~" {
					r = "/a/"
				}
				emit("$[?("+l+op+r+")]", "operator-matrix")
				if op == "=~" {
					break
				}
			}
		}
	}
	// characters in front of (and behind) a path: blanks are skipped, every other character is a name character or an error
	// exactly where it stands -- byte-order mark, zero-width and no-break spaces, line separators, control characters
	for _, pre := range []string{"\ufeff", "\u200b", "\u00a0", "\u2028", "\t", "\n", " ", "\ufeff\ufeff", " \ufeff", "\x00", "\u0085"} {
		for _, tail := range []string{`$.a`, `a`, `$.a[`, `.a`, `['a']`, `$`, `*`, `a.b[`, `$..a`, `[?(@.a)]`} {
			emit(pre+tail, "leading-characters")
			emit(tail+pre, "trailing-characters")
		}
	}
	// quoted member names: every sequence of up to three pieces -- the other quote, the own quote escaped, a backslash
	// pair, raw control characters, escapes (valid, truncated, lone surrogate), a plain letter -- in both quote styles
	pieces := []string{`"`, `'`, `\\`, "\t", "\n", "a", `\u0041`, `\uD834`, `\u00`, `\`, "\x01", `\n`}
	for _, q := range []string{"'", `"`} {
		esc := func(pc string) string {
			if pc == q {
				return `\` + q // the own quote has to be escaped
			}
			return pc
		}
		for _, a := range pieces {
			emit("$["+q+esc(a)+q+"]", "quoted-name-matrix")
			for _, b := range pieces {
				emit("$["+q+esc(a)+esc(b)+q+"]", "quoted-name-matrix")
				for _, c := range pieces {
					emit("$["+q+esc(a)+esc(b)+esc(c)+q+"]", "quoted-name-matrix")
				}
			}
		}
	}
	// regular-expression syntax: what regexp.Compile accepts is accepted, what it rejects is an invalid argument --
	// prefixes x cores x suffixes, valid and invalid, lazy and greedy quantifiers, escapes at either end
	for _, pre := range []string{"", "^", ".*", ".*?", ".+?", "(?i)", "(?s).*", `\.*`, ".?"} {
		for _, core := range []string{"a", "abc", "[a-c]+", "(a|b)", `\d`, "a.c", `\.`} {
			for _, suf := range []string{"", "$", ".*", ".*?", ".+?", `\.*`, `\.`, `\\`, "{2}", "{2,1}", "(", "+", "*", "??", `\/.*`} {
				emit("$[?(@.a=~/"+pre+core+suf+"/)]", "regex-syntax")
			}
		}
	}
	for i := 0; i < *n; i++ {
		if i%10 == 9 {
			// invalid UTF-8 in front of a syntax error with little text after it
			base := "$.a"
			if len(paths) > 0 {
				base = paths[g.rnd.Intn(len(paths))]
			}
			bs := []byte(base)
			cut := g.rnd.Intn(len(bs) + 1)
			bad := [][]byte{{0xff}, {0xe9}, {0xc3}, {0xe2, 0x82}, {0xf0, 0x9f}, {0x80}, {0xff, 0xfe}}[g.rnd.Intn(7)]
			tail := []string{"(", "[", "]", ")", "", " x", "'"}[g.rnd.Intn(7)]
			emit(string(bs[:cut])+string(bad)+tail, "invalid-utf8-then-error")
			continue
		}
		switch i % 8 {
		case 0, 1:
			emit(g.sentence(), "grammar-walk")
		case 2:
			p, src := g.focused()
			emit(p, src)
		case 3:
			emit(g.mutate(g.sentence()), "grammar-walk-mutated")
		case 4, 5:
			if len(paths) > 0 {
				emit(g.mutate(paths[g.rnd.Intn(len(paths))]), "corpus-mutated")
			} else {
				emit(g.garbage(), "garbage")
			}
		case 6:
			if i%16 == 6 {
				emit(g.garbage(), "garbage")
			} else {
				p, src := g.focused()
				emit(p, src)
			}
		case 7:
			emit(g.stress(), "stress")
		}
	}
	cb, _ := json.Marshal(g.cov)
	fmt.Fprintln(os.Stderr, "GENCOV "+string(cb))
}
