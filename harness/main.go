package main

import (
	"encoding/json"
	"flag"
	"fmt"
	"os"
	"runtime"
	"strings"
)

// verifh run   -props C01,C04 -log tlc.log -out summary.json [-in cases.ndjson]   (cases on stdin)
// verifh -worker -props ...                                                      (internal)
// verifh replay -props C01 file.json
func main() {
	if len(os.Args) > 1 && os.Args[1] == "-worker" {
		fs := flag.NewFlagSet("worker", flag.ExitOnError)
		props := fs.String("props", "", "")
		opts := fs.String("opts", "", "k=v,k=v")
		fs.Parse(os.Args[2:])
		o := parseOpts(*opts)
		o["_props"], o["_opts"] = *props, *opts
		workerMain(parseProps(*props), o)
		return
	}
	if len(os.Args) < 2 {
		fmt.Fprintln(os.Stderr, "usage: verifh run|replay|... ")
		os.Exit(2)
	}
	switch os.Args[1] {
	case "run":
		fs := flag.NewFlagSet("run", flag.ExitOnError)
		props := fs.String("props", "", "properties whose oracles run")
		logp := fs.String("log", "", "where non-case input lines go")
		outp := fs.String("out", "", "summary json")
		inp := fs.String("in", "", "read cases from a file instead of stdin")
		nw := fs.Int("workers", runtime.NumCPU(), "")
		bs := fs.Int("batch", 256, "")
		crash := fs.String("crashprop", "", "property blamed for process death")
		max := fs.Int("max", 0, "stop after this many cases (0 = all)")
		opts := fs.String("opts", "", "k=v,k=v passed to workers")
		recs := fs.String("records", "", "write the records produced by recorder families here (ndjson)")
		fs.Parse(os.Args[2:])
		in := os.Stdin
		if *inp != "" {
			f, err := os.Open(*inp)
			if err != nil {
				fmt.Fprintln(os.Stderr, err)
				os.Exit(2)
			}
			in = f
		}
		cp := *crash
		if cp == "" {
			cp = strings.Split(*props, ",")[0]
		}
		sum := dispatch(in, *logp, []string{"-worker", "-props", *props, "-opts", *opts}, *nw, *bs, cp, *max, *recs)
		b, _ := json.MarshalIndent(sum, "", " ")
		if *outp != "" {
			os.WriteFile(*outp, b, 0o644)
		} else {
			os.Stdout.Write(b)
		}
	default:
		if h, ok := commands[os.Args[1]]; ok {
			h(os.Args[2:])
			return
		}
		fmt.Fprintln(os.Stderr, "unknown command", os.Args[1])
		os.Exit(2)
	}
}

var commands = map[string]func(args []string){}

func parseOpts(s string) map[string]string {
	m := map[string]string{}
	for _, kv := range strings.Split(s, ",") {
		if i := strings.Index(kv, "="); i > 0 {
			m[kv[:i]] = kv[i+1:]
		}
	}
	return m
}
