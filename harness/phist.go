package main

// Family "phist" (C19): a history of Parse calls in ONE process.  Every call's outcome -- the exact
// error, or the behaviour of the returned function on the probe documents -- must be (a) what the
// specification demands for (path, config) alone and (b) what the same call gives when it is the
// first call of a fresh process.  The function must keep the functions it was parsed with even if
// the Config is modified afterwards.

import (
	"bufio"
	"encoding/json"
	"flag"
	"fmt"
	"math/rand"
	"os"
	"os/exec"
	"strings"

	"github.com/AsaiYusuke/jsonpath"
)

type phProbe struct {
	Det bool   `json:"det"`
	Res expRes `json:"res"`
}
type phOut struct {
	Cls    string     `json:"cls"`
	Pos    int        `json:"pos"`
	Why    string     `json:"why"`
	Text   []int      `json:"text"`
	Asm    []parseAsm `json:"asm"`
	Probes []phProbe  `json:"probes"`
}
type phCall struct {
	Idx  int    `json:"idx"`
	Name string `json:"name"`
	S    []int  `json:"s"`
	Cfg  struct {
		FF [][]int `json:"ff"`
		AF [][]int `json:"af"`
	} `json:"cfg"`
	Acc     bool  `json:"acc"`
	Variant int   `json:"variant"` // 2: the same function names bound to other implementations (outputs are tagged)
	Extra   bool  `json:"extra"`   // a second Config (other functions, accessor mode) is passed as well: only the first counts
	Out     phOut `json:"out"`
}
type phCase struct {
	Fam    string   `json:"fam"`
	Probes []MV     `json:"probes"`
	Calls  []phCall `json:"calls"`
}

func init() {
	families["phist"] = func(w *worker, inner []byte) {
		var c phCase
		if err := json.Unmarshal(inner, &c); err != nil {
			w.infra("bad phist case: " + err.Error())
			return
		}
		w.runPHist(&c, inner)
	}
	commands["fresh-parse"] = freshParseMain
	commands["compose-hist"] = composeHistMain
}

// the model's function table restricted to the names of this configuration
func phConfig(k *phCall, log *callLog) (*jsonpath.Config, bool) {
	if len(k.Cfg.FF) == 0 && len(k.Cfg.AF) == 0 && !k.Acc {
		return nil, false
	}
	all := modelConfig(log, false)
	_ = all
	cfg := jsonpath.Config{}
	tag := func(name string) string {
		if k.Variant == 2 {
			return name + "#v2"
		}
		return name
	}
	for _, n := range k.Cfg.FF {
		name := cps(n)
		cfg.SetFilterFunction(name, func(v interface{}) (interface{}, error) { return []interface{}{tag(name), v}, nil })
	}
	for _, n := range k.Cfg.AF {
		name := cps(n)
		cfg.SetAggregateFunction(name, func(vs []interface{}) (interface{}, error) {
			return append([]interface{}{tag(name)}, append([]interface{}{}, vs...)...), nil
		})
	}
	if k.Acc {
		cfg.SetAccessorMode()
	}
	return &cfg, true
}

// signature: everything observable about Parse(path, config) and the function it returns
func phSignature(k *phCall, probes []MV) (sig string, f evalFn, o observed) {
	cfg, has := phConfig(k, nil)
	text := cps(k.S)
	parse := func() parsed { return safeParse(text, cfg) }
	if k.Extra && cfg != nil {
		// Parse(path, config, another): only the first Config counts, and it must not be written to
		other := jsonpath.Config{}
		other.SetFilterFunction("f9", func(v interface{}) (interface{}, error) { return "f9", nil })
		other.SetAggregateFunction("g9", func(v []interface{}) (interface{}, error) { return "g9", nil })
		other.SetAccessorMode()
		parse = func() (p parsed) {
			defer func() {
				if r := recover(); r != nil {
					p.Panic = r
				}
			}()
			p.F, p.Err = jsonpath.Parse(text, *cfg, other)
			return
		}
	}
	o = observeParse(text, cfg)
	if o.Shape != "" {
		return "SHAPE:" + o.Shape, nil, o
	}
	if o.Cls != "ok" {
		return "ERR:" + o.Msg, nil, o
	}
	pr := parse()
	if pr.Err != nil || pr.Panic != nil {
		return fmt.Sprintf("ERR(with a second Config): %v %v", pr.Err, pr.Panic), nil, o
	}
	// the Config object is modified after Parse: the function must not notice
	if has {
		for _, n := range k.Cfg.FF {
			cfg.SetFilterFunction(cps(n), func(v interface{}) (interface{}, error) { return "REPLACED", nil })
		}
		cfg.SetFilterFunction("added-later", func(v interface{}) (interface{}, error) { return nil, nil })
		for _, n := range k.Cfg.AF {
			cfg.SetAggregateFunction(cps(n), func(vs []interface{}) (interface{}, error) { return "REPLACED", nil })
		}
	}
	var b strings.Builder
	b.WriteString("OK")
	for i, p := range probes {
		r := safeCall(pr.F, p.ToGo(Mode{}))
		fmt.Fprintf(&b, " | probe%d: ", i)
		switch {
		case r.Panic != nil:
			fmt.Fprintf(&b, "PANIC %v", r.Panic)
		case r.Err != nil:
			fmt.Fprintf(&b, "ERR %s", r.Err.Error())
		default:
			for _, v := range r.Vals {
				if a, ok := v.(jsonpath.Accessor); ok {
					fmt.Fprintf(&b, "ACC(settable=%v,%s) ", a.Set != nil, snap(a.Get()))
				} else {
					fmt.Fprintf(&b, "%s ", snap(v))
				}
			}
		}
	}
	return b.String(), pr.F, o
}

// fresh-parse: the same call as the first call of a fresh process (stdin: one phCall + probes as JSON)
func freshParseMain(args []string) {
	var in struct {
		Call   phCall `json:"call"`
		Probes []MV   `json:"probes"`
	}
	if err := json.NewDecoder(bufio.NewReader(os.Stdin)).Decode(&in); err != nil {
		fmt.Fprintln(os.Stderr, err)
		os.Exit(2)
	}
	sig, _, _ := phSignature(&in.Call, in.Probes)
	b, _ := json.Marshal(sig)
	os.Stdout.Write(b)
}

var freshCache = map[string]string{}

func freshSignature(k *phCall, probes []MV) (string, error) {
	if s, ok := freshCache[k.Name]; ok {
		return s, nil
	}
	in, _ := json.Marshal(map[string]interface{}{"call": k, "probes": probes})
	cmd := exec.Command(os.Args[0], "fresh-parse")
	cmd.Stdin = strings.NewReader(string(in))
	out, err := cmd.Output()
	if err != nil {
		return "", fmt.Errorf("fresh process failed: %v", err)
	}
	var s string
	if err := json.Unmarshal(out, &s); err != nil {
		return "", err
	}
	freshCache[k.Name] = s
	return s, nil
}

func (w *worker) runPHist(c *phCase, raw []byte) {
	w.count("cases", 1)
	w.count(fmt.Sprintf("history-length:%d", len(c.Calls)), 1)
	hist := ""
	for ki := range c.Calls {
		k := &c.Calls[ki]
		hist += fmt.Sprintf("Parse(%s); ", k.Name)
		for _, a := range k.Out.Asm {
			if ok, msg := checkAssumption(a); !ok {
				w.infra("model assumption wrong: " + msg)
				return
			}
		}
		sig, f, o := phSignature(k, c.Probes)
		w.count("C19:calls", 1)
		text := cps(k.S)
		if strings.HasPrefix(sig, "SHAPE:") {
			w.viol("C19", "undocumented-outcome", text, k.Name, "history: "+hist+" -> "+sig, "shape", raw)
			return
		}
		// (b) the same call as the first call of a fresh process
		fresh, err := freshSignature(k, c.Probes)
		if err != nil {
			w.infra(err.Error())
			return
		}
		if fresh != sig {
			w.viol("C19", "outcome-depends-on-earlier-calls", text, k.Name, fmt.Sprintf("history: %s: this call gives %q; as the first call of a fresh process it gives %q", hist, sig, fresh), "history", raw)
			return
		}
		// (a) what the specification demands for (path, config)
		want := k.Out
		if o.Cls != want.Cls {
			w.viol("C19", "outcome-differs-from-spec", text, k.Name, fmt.Sprintf("history: %s: specification %s, Parse %s %q", hist, want.Cls, o.Cls, o.Msg), "spec", raw)
			return
		}
		switch o.Cls {
		case "syntax":
			if o.Pos != want.Pos || o.Why != want.Why {
				w.viol("C19", "error-differs-from-spec", text, k.Name, fmt.Sprintf("history: %s: specification pos=%d %q, Parse %q", hist, want.Pos, want.Why, o.Msg), "spec", raw)
				return
			}
		case "arg":
			if !strings.HasPrefix(o.Text, cps(want.Text)+", error=") {
				w.viol("C19", "error-differs-from-spec", text, k.Name, fmt.Sprintf("history: %s: specification argument %q, Parse %q", hist, cps(want.Text), o.Msg), "spec", raw)
				return
			}
		case "fnf", "nsup":
			if o.Text != cps(want.Text) {
				w.viol("C19", "error-differs-from-spec", text, k.Name, fmt.Sprintf("history: %s: specification %q, Parse %q", hist, cps(want.Text), o.Msg), "spec", raw)
				return
			}
		case "ok":
			for pi, p := range want.Probes {
				if !p.Det || k.Variant == 2 {
					continue // variant implementations are not in the model; the fresh-process comparison covers them
				}
				r := safeCall(f, c.Probes[pi].ToGo(Mode{}))
				okr := r.Panic == nil
				if okr && p.Res.Ok {
					okr = r.Err == nil && len(r.Vals) == len(p.Res.Vals)
					if okr {
						for i, v := range r.Vals {
							a, isAcc := v.(jsonpath.Accessor)
							if isAcc != k.Acc {
								okr = false
								break
							}
							if isAcc {
								v = a.Get()
							}
							// function outputs are model functions restricted to this config: compare through the model wrapper shape
							if !p.Res.Vals[i].V.matches(v) {
								okr = false
							}
						}
					}
				} else if okr {
					okr = r.Err != nil
				}
				if !okr {
					w.viol("C19", "function-behaviour-differs-from-spec", text, k.Name, fmt.Sprintf("history: %s: on probe %d the function returns %s, specification %s (accessor mode %v)", hist, pi, r, expString(p.Res), k.Acc), "spec", raw)
					return
				}
			}
		}
	}
	w.distinct(hist)
}

// compose-hist: long random Parse histories.  TLC has printed the demanded outcome of every pool entry
// (the histories of length 1); because the specification's outcome of a call does not mention the calls
// before it, a history of length L is any sequence of L entries with those outcomes.
func composeHistMain(args []string) {
	fs := flag.NewFlagSet("compose-hist", flag.ExitOnError)
	in := fs.String("in", "", "file with TLC output of Gen_ParseHist with MaxCalls = 1")
	seed := fs.Int64("seed", 1, "")
	n := fs.Int("n", 2000, "")
	length := fs.Int("len", 10, "")
	fs.Parse(args)
	f, err := os.Open(*in)
	if err != nil {
		fmt.Fprintln(os.Stderr, err)
		os.Exit(2)
	}
	var entries []json.RawMessage
	var probes json.RawMessage
	sc := bufio.NewScanner(f)
	sc.Buffer(make([]byte, 1<<20), 1<<26)
	for sc.Scan() {
		inner, ok := decodeLine(sc.Bytes())
		if !ok {
			continue
		}
		var c struct {
			Fam    string            `json:"fam"`
			Probes json.RawMessage   `json:"probes"`
			Calls  []json.RawMessage `json:"calls"`
		}
		if json.Unmarshal(inner, &c) != nil || c.Fam != "phist" || len(c.Calls) != 1 {
			continue
		}
		probes = c.Probes
		entries = append(entries, c.Calls[0])
	}
	if len(entries) == 0 {
		fmt.Fprintln(os.Stderr, "no pool entries found")
		os.Exit(2)
	}
	rnd := rand.New(rand.NewSource(*seed))
	out := bufio.NewWriter(os.Stdout)
	defer out.Flush()
	for i := 0; i < *n; i++ {
		l := 4 + rnd.Intn(*length-3)
		calls := make([]json.RawMessage, l)
		for k := range calls {
			calls[k] = entries[rnd.Intn(len(entries))]
		}
		b, _ := json.Marshal(map[string]interface{}{"fam": "phist", "probes": probes, "calls": calls})
		out.Write(b)
		out.WriteByte('\n')
	}
}
