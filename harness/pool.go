package main

// Dispatcher and crash-isolated workers.
//
// The parent reads TLC's stdout (or a case file), keeps every non-case line in a log, and hands
// batches of case lines to worker processes (this same binary with -worker).  A worker that dies
// or exceeds the watchdog has its batch re-run case by case in fresh workers, so a fatal failure of
// the library (stack exhaustion cannot be recovered) is pinned to a single input and reproduced.

import (
	"bufio"
	"bytes"
	"encoding/hex"
	"encoding/json"
	"fmt"
	"io"
	"os"
	"os/exec"
	"runtime"
	"sort"
	"strings"
	"sync"
	"time"
)

type violation struct {
	Prop   string `json:"property"`
	Kind   string `json:"kind"`
	Text   string `json:"path"`
	Doc    string `json:"document"`
	Detail string `json:"detail"`
	Sig    string `json:"signature"`
	Case   string `json:"case,omitempty"`
	Fam    string `json:"family,omitempty"`
	Props  string `json:"props,omitempty"` // oracle set and options of the run that found it (for replay)
	Opts   string `json:"opts,omitempty"`
}

type batchResult struct {
	Counters map[string]int    `json:"counters"`
	Viol     []violation       `json:"violations"`
	Distinct []string          `json:"distinct"`
	Samples  []string          `json:"samples"`
	Infra    []string          `json:"infra"`
	Done     int               `json:"done"`
	Records  []json.RawMessage `json:"records,omitempty"`
}

type worker struct {
	props        map[string]bool
	fam          string
	res          *batchResult
	distinctSeen map[string]bool
	sampleEvery  int
	logProp      string // property to which checkLog attributes a differing call log (default C14)
	n            int
	opts         map[string]string
	prevLine     []byte // the case processed just before this one in the same process (call histories matter)
	lastDoc      interface{}
	lastSnap     string
	lastText     string
}

func (w *worker) count(k string, n int) { w.res.Counters[k] += n }
func (w *worker) infra(msg string) {
	if len(w.res.Infra) < 20 {
		w.res.Infra = append(w.res.Infra, msg)
	}
}
func (w *worker) distinct(key string) {
	if !w.distinctSeen[key] {
		w.distinctSeen[key] = true
		w.res.Distinct = append(w.res.Distinct, key)
	}
}
func (w *worker) viol(prop, kind, text, doc, detail, sig string, raw []byte) {
	w.res.Counters["violations:"+prop+":"+kind]++
	// keep a bounded number per (prop, kind, signature)
	n := 0
	for _, v := range w.res.Viol {
		if v.Prop == prop && v.Kind == kind && v.Sig == sig {
			n++
		}
	}
	if n >= 2 {
		return
	}
	cs := string(raw)
	if w.fam == "recparse" && w.prevLine != nil {
		// outcome may depend on the call made just before in this process: keep both for the replay
		cs = string(w.prevLine) + "\n" + cs
		detail += " | previous Parse call in this process: " + caseText(w.prevLine)
	}
	w.res.Viol = append(w.res.Viol, violation{Prop: prop, Kind: kind, Text: text, Doc: doc, Detail: detail, Sig: sig, Case: cs})
}

func decodeLine(line []byte) ([]byte, bool) {
	if len(line) > 1 && line[0] == '"' && line[1] == '{' {
		var inner string
		if err := json.Unmarshal(line, &inner); err != nil {
			return nil, false
		}
		return []byte(inner), true
	}
	if len(line) > 0 && line[0] == '{' {
		return line, true
	}
	return nil, false
}

func (w *worker) process(line []byte) {
	inner, ok := decodeLine(line)
	if !ok {
		w.infra("undecodable case line")
		return
	}
	var head struct {
		Fam string `json:"fam"`
	}
	if err := json.Unmarshal(inner, &head); err != nil {
		w.infra("bad case json: " + err.Error())
		return
	}
	w.n++
	if w.n%w.sampleEvery == 1 && len(w.res.Samples) < 3 {
		s := string(inner)
		if len(s) > 1500 {
			s = s[:1500] + "..."
		}
		w.res.Samples = append(w.res.Samples, s)
	}
	w.fam = head.Fam
	cfgCalls = 0
	defer func() { w.prevLine = append([]byte(nil), inner...) }()
	switch head.Fam {
	case "sel":
		var c selCase
		if err := json.Unmarshal(inner, &c); err != nil {
			w.infra("bad sel case: " + err.Error())
			return
		}
		w.runSel(&c, inner)
	default:
		if h, ok := families[head.Fam]; ok {
			h(w, inner)
			return
		}
		w.infra("unknown family " + head.Fam)
	}
}

var families = map[string]func(w *worker, inner []byte){}

// workerMain: protocol on stdin/stdout: "B <n>\n" + n lines -> one JSON line
func workerMain(props map[string]bool, opts map[string]string) {
	// a library call that allocates without end must kill THIS process (a verdict after reproduction), not invite the
	// kernel's OOM killer to pick some other process of the machine
	go func() {
		var ms runtime.MemStats
		for {
			time.Sleep(200 * time.Millisecond)
			runtime.ReadMemStats(&ms)
			if ms.HeapAlloc > 3<<30 {
				fmt.Fprintln(os.Stderr, "worker: more than 3 GiB of live heap during a library call (runaway allocation): giving up")
				os.Exit(3)
			}
		}
	}()
	in := bufio.NewReaderSize(os.Stdin, 1<<20)
	out := bufio.NewWriter(os.Stdout)
	var prev []byte
	for {
		hdr, err := in.ReadString('\n')
		if err != nil {
			return
		}
		var n int
		fmt.Sscanf(hdr, "B %d", &n)
		w := &worker{props: props, res: &batchResult{Counters: map[string]int{}}, distinctSeen: map[string]bool{}, sampleEvery: 997, opts: opts, prevLine: prev}
		for i := 0; i < n; i++ {
			line, err := in.ReadBytes('\n')
			if err != nil {
				return
			}
			w.process(bytes.TrimRight(line, "\n"))
			w.res.Done++
		}
		if alias := opts["alias"]; alias != "" {
			// the check of property <alias> re-uses the oracles of other properties
			for i := range w.res.Viol {
				w.res.Viol[i].Detail = "[" + w.res.Viol[i].Prop + " oracle] " + w.res.Viol[i].Detail
				w.res.Viol[i].Prop = alias
			}
		}
		prev = w.prevLine
		for i := range w.res.Viol {
			w.res.Viol[i].Props, w.res.Viol[i].Opts = opts["_props"], opts["_opts"]
		}
		b, _ := json.Marshal(w.res)
		out.Write(b)
		out.WriteByte('\n')
		out.Flush()
	}
}

type proc struct {
	cmd  *exec.Cmd
	in   io.WriteCloser
	out  *bufio.Reader
	errs *tailWriter
}

// tailWriter forwards to os.Stderr and keeps the first 6000 bytes written (the head of a Go fatal error / race report)
type tailWriter struct {
	mu  sync.Mutex
	buf []byte
}

func (t *tailWriter) Write(b []byte) (int, error) {
	t.mu.Lock()
	if len(t.buf) < 6000 {
		t.buf = append(t.buf, b...)
	}
	t.mu.Unlock()
	return os.Stderr.Write(b)
}
func (t *tailWriter) String() string { t.mu.Lock(); defer t.mu.Unlock(); return string(t.buf) }

// runtimeRace: the Go runtime itself detected unsynchronised concurrent access inside the library (the map
// implementation's "concurrent map" fatal errors, or a race-detector report): sound evidence, reproducible or not
func runtimeRace(stderr string) string {
	for _, sig := range []string{"fatal error: concurrent map", "WARNING: DATA RACE"} {
		if i := strings.Index(stderr, sig); i >= 0 && strings.Contains(stderr[i:], "AsaiYusuke/jsonpath") {
			e := stderr[i:]
			if len(e) > 2500 {
				e = e[:2500]
			}
			return e
		}
	}
	return ""
}

func startProc(args []string) (*proc, error) {
	cmd := exec.Command(os.Args[0], args...)
	tw := &tailWriter{}
	cmd.Stderr = tw
	in, _ := cmd.StdinPipe()
	outp, _ := cmd.StdoutPipe()
	if err := cmd.Start(); err != nil {
		return nil, err
	}
	return &proc{cmd: cmd, in: in, out: bufio.NewReaderSize(outp, 1<<20), errs: tw}, nil
}

func (p *proc) kill() {
	if p != nil && p.cmd.Process != nil {
		p.cmd.Process.Kill()
		p.cmd.Wait()
	}
}

// runBatch sends a batch and waits for the answer under a watchdog.
func (p *proc) runBatch(lines [][]byte, timeout time.Duration) (*batchResult, error) {
	var buf bytes.Buffer
	fmt.Fprintf(&buf, "B %d\n", len(lines))
	for _, l := range lines {
		buf.Write(l)
		buf.WriteByte('\n')
	}
	type ans struct {
		res *batchResult
		err error
	}
	ch := make(chan ans, 1)
	go func() {
		if _, err := p.in.Write(buf.Bytes()); err != nil {
			ch <- ans{nil, err}
			return
		}
		line, err := p.out.ReadBytes('\n')
		if err != nil {
			ch <- ans{nil, fmt.Errorf("worker died: %v", err)}
			return
		}
		var r batchResult
		if err := json.Unmarshal(line, &r); err != nil {
			ch <- ans{nil, err}
			return
		}
		ch <- ans{&r, nil}
	}()
	select {
	case a := <-ch:
		return a.res, a.err
	case <-time.After(timeout):
		return nil, fmt.Errorf("watchdog: no answer within %v", timeout)
	}
}

type summary struct {
	Counters map[string]int `json:"counters"`
	Viol     []violation    `json:"violations"`
	Distinct int            `json:"distinct_nontrivial"`
	Samples  []string       `json:"samples"`
	Infra    []string       `json:"infra"`
	Cases    int            `json:"cases"`
	Crashes  int            `json:"crashes"`
}

func dispatch(input io.Reader, logPath string, workerArgs []string, nworkers, batchSize int, crashProp string, maxCases int, recPath string) *summary {
	sum := &summary{Counters: map[string]int{}}
	var recw *bufio.Writer
	if recPath != "" {
		rf, err := os.Create(recPath)
		if err == nil {
			defer rf.Close()
			recw = bufio.NewWriterSize(rf, 1<<20)
			defer recw.Flush()
		}
	}
	distinct := map[string]bool{}
	var mu sync.Mutex
	merge := func(r *batchResult) {
		mu.Lock()
		defer mu.Unlock()
		for k, v := range r.Counters {
			sum.Counters[k] += v
		}
		for _, v := range r.Viol {
			n := 0
			for _, x := range sum.Viol {
				if x.Prop == v.Prop && x.Kind == v.Kind && x.Sig == v.Sig {
					n++
				}
			}
			if n < 2 && len(sum.Viol) < 400 {
				sum.Viol = append(sum.Viol, v)
			}
		}
		for _, d := range r.Distinct {
			distinct[d] = true
		}
		if len(sum.Samples) < 5 {
			sum.Samples = append(sum.Samples, r.Samples...)
		}
		sum.Infra = append(sum.Infra, r.Infra...)
		sum.Cases += r.Done
		if recw != nil {
			for _, rec := range r.Records {
				recw.Write(rec)
				recw.WriteByte('\n')
			}
		}
	}
	fatalDeaths, firstFatal, firstFatalCase := 0, "", ""
	batches := make(chan [][]byte, nworkers*2)
	var wg sync.WaitGroup
	for i := 0; i < nworkers; i++ {
		wg.Add(1)
		go func() {
			defer wg.Done()
			var p *proc
			defer func() { p.kill() }()
			for b := range batches {
				if p == nil {
					var err error
					if p, err = startProc(workerArgs); err != nil {
						mu.Lock()
						sum.Infra = append(sum.Infra, "cannot start worker: "+err.Error())
						mu.Unlock()
						continue
					}
				}
				r, err := p.runBatch(b, 90*time.Second)
				if err == nil {
					merge(r)
					continue
				}
				// the batch killed or hung the worker: find the culprit(s) one case at a time
				p.kill()
				race := runtimeRace(p.errs.String())
				stderrHead := p.errs.String()
				p = nil
				mu.Lock()
				sum.Counters["worker-batches-failed"]++
				if strings.Contains(stderrHead, "fatal error:") || strings.Contains(stderrHead, "unexpected signal") || strings.Contains(stderrHead, "runaway allocation") {
					// the Go runtime (or the heap watchdog) ended the process inside a library call: remembered, and a verdict
					// when it happens to several different batches even if no single case or sequence reproduces it
					fatalDeaths++
					if firstFatal == "" {
						firstFatal = stderrHead
						if len(firstFatal) > 1800 {
							firstFatal = firstFatal[:1800]
						}
						in, _ := decodeLine(b[len(b)-1])
						firstFatalCase = string(in)
					}
				}
				tooMany := sum.Counters["worker-batches-failed"] > 8
				if tooMany {
					sum.Counters["cases-skipped-after-repeated-worker-failures"] += len(b)
					sum.Cases += len(b)
				}
				mu.Unlock()
				if tooMany {
					continue // triage of every failing batch would take hours; what was seen so far is reported
				}
				mu.Lock()
				if race != "" && crashProp == "C06" {
					sum.Crashes++
					if sum.Counters["violations:C06:runtime-detected-concurrent-access"] == 0 {
						sum.Viol = append(sum.Viol, violation{Prop: "C06", Kind: "runtime-detected-concurrent-access", Text: "(a batch of schedules)", Detail: "the Go runtime killed the process: " + race, Sig: "crash-race", Case: func() string { in, _ := decodeLine(b[0]); return string(in) }()})
					}
					sum.Counters["violations:C06:runtime-detected-concurrent-access"]++
				}
				enough := sum.Crashes >= 3
				if enough {
					sum.Counters["cases-skipped-after-3-confirmed-crashes"] += len(b)
					sum.Cases += len(b)
				}
				mu.Unlock()
				if enough {
					continue // three reproduced process deaths / hangs are reported; do not spend minutes on more
				}
				// does the SEQUENCE reproduce?  (a failure may need the cases before it: pooled state of the library)
				seqRepro, confirmedBefore := false, 0
				if len(b) > 1 {
					qs, errS := startProc(workerArgs)
					if errS == nil {
						_, eS := qs.runBatch(b, 90*time.Second)
						qs.kill()
						seqRepro = eS != nil
					}
				}
				mu.Lock()
				confirmedBefore = sum.Crashes
				mu.Unlock()
				for _, line := range b {
					q, err2 := startProc(workerArgs)
					if err2 != nil {
						continue
					}
					r1, e1 := q.runBatch([][]byte{line}, 20*time.Second)
					q.kill()
					if e1 == nil {
						merge(r1)
						continue
					}
					// reproduce alone: up to three more runs, one more failure is enough
					var e2 error
					for try := 0; try < 3 && e2 == nil; try++ {
						q2, _ := startProc(workerArgs)
						_, e2 = q2.runBatch([][]byte{line}, 20*time.Second)
						q2.kill()
					}
					mu.Lock()
					if e2 != nil {
						sum.Crashes++
						inner, _ := decodeLine(line)
						sum.Viol = append(sum.Viol, violation{Prop: crashProp, Kind: "process-death-or-hang", Text: caseText(inner), Detail: e1.Error() + " (reproduced alone: " + e2.Error() + ")", Sig: "crash", Case: string(inner)})
						sum.Counters["violations:"+crashProp+":process-death-or-hang"]++
					} else {
						sum.Infra = append(sum.Infra, "worker failure not reproduced: "+e1.Error())
					}
					sum.Cases++
					mu.Unlock()
				}
				mu.Lock()
				if seqRepro && sum.Crashes == confirmedBefore {
					// no single case dies alone, the sequence does, twice: a verdict about the sequence
					sum.Crashes++
					var cs []string
					for _, l := range b {
						in, _ := decodeLine(l)
						cs = append(cs, string(in))
					}
					sum.Viol = append(sum.Viol, violation{Prop: crashProp, Kind: "process-death-or-hang-in-a-sequence-of-cases", Text: fmt.Sprintf("(a sequence of %d cases in one process)", len(b)), Detail: err.Error() + " (the same sequence failed again in a fresh process; no case of it fails alone)", Sig: "crash-seq", Case: strings.Join(cs, "\n")})
					sum.Counters["violations:"+crashProp+":process-death-or-hang-in-a-sequence-of-cases"]++
					// the unreproduced single-case notes of this batch are explained by the sequence
					kept := sum.Infra[:0]
					for _, m := range sum.Infra {
						if !strings.HasPrefix(m, "worker failure not reproduced") {
							kept = append(kept, m)
						}
					}
					sum.Infra = kept
				}
				mu.Unlock()
			}
		}()
	}
	var logf *os.File
	if logPath != "" {
		logf, _ = os.Create(logPath)
		defer logf.Close()
	}
	rd := bufio.NewReaderSize(input, 1<<22)
	var cur [][]byte
	total := 0
	for {
		line, err := rd.ReadBytes('\n')
		if len(line) > 0 {
			l := bytes.TrimRight(line, "\r\n")
			if err != nil && len(l) > 1 && (l[0] == '"' || l[0] == '{') {
				// the generator was stopped (a simulation ends by its time limit) in the middle of a line: not a case
				if in, ok := decodeLine(l); !ok || !json.Valid(in) {
					mu.Lock()
					sum.Counters["partial-last-line-dropped"]++
					mu.Unlock()
					break
				}
			}
			if len(l) > 1 && ((l[0] == '"' && l[1] == '{') || l[0] == '{') {
				if maxCases == 0 || total < maxCases {
					cur = append(cur, append([]byte(nil), l...))
					total++
					if len(cur) >= batchSize {
						batches <- cur
						cur = nil
					}
				}
			} else if logf != nil {
				logf.Write(line)
			}
		}
		if err != nil {
			break
		}
	}
	if len(cur) > 0 {
		batches <- cur
	}
	close(batches)
	wg.Wait()
	if fatalDeaths >= 3 && sum.Crashes == 0 {
		// workers were killed by the Go runtime inside library calls in several independent batches, yet neither a case
		// nor a sequence fails again in a fresh process: memory damaged by earlier calls of the same process
		sum.Crashes++
		sum.Viol = append(sum.Viol, violation{Prop: crashProp, Kind: "process-death-repeated", Text: fmt.Sprintf("(%d batches of cases, each in its own worker process)", fatalDeaths), Detail: "the Go runtime ended the worker inside a library call in " + fmt.Sprint(fatalDeaths) + " different batches (not reproducible one case or one batch at a time); first report: " + firstFatal, Sig: "crash-repeated", Case: firstFatalCase})
		sum.Counters["violations:"+crashProp+":process-death-repeated"]++
		kept := sum.Infra[:0]
		for _, m := range sum.Infra {
			if !strings.HasPrefix(m, "worker failure not reproduced") {
				kept = append(kept, m)
			}
		}
		sum.Infra = kept
	}
	sum.Distinct = len(distinct)
	sort.Slice(sum.Viol, func(i, j int) bool {
		if sum.Viol[i].Prop != sum.Viol[j].Prop {
			return sum.Viol[i].Prop < sum.Viol[j].Prop
		}
		return sum.Viol[i].Kind < sum.Viol[j].Kind
	})
	return sum
}

func caseText(inner []byte) string {
	var c struct {
		Texts []spelling `json:"texts"`
		S     []int      `json:"s"`
		Hex   string     `json:"hex"`
	}
	json.Unmarshal(inner, &c)
	if len(c.Texts) > 0 {
		return cps(c.Texts[0].Text)
	}
	if c.Hex != "" {
		b, _ := hex.DecodeString(c.Hex)
		return string(b)
	}
	return cps(c.S)
}

func parseProps(s string) map[string]bool {
	m := map[string]bool{}
	for _, p := range strings.Split(s, ",") {
		if p != "" {
			m[p] = true
		}
	}
	return m
}
