package main

import (
	"encoding/json"
	"fmt"

	"github.com/AsaiYusuke/jsonpath"
)

// acchist: behaviours of spec/Gen_AccHist (C13 as a state machine) stepped through the real
// accessors: after every Set / direct update EVERY accessor must read the heap at its location and
// the document must equal the specification's heap.
type accOp struct {
	K    string `json:"k"`
	I    int    `json:"i"`
	V    MV     `json:"v"`
	Gets []MV   `json:"gets"`
	Heap MV     `json:"heap"`
}
type accHistCase struct {
	Doc  MV        `json:"doc"`
	Text []int     `json:"text"`
	Locs [][]LocEl `json:"locs"`
	Ops  []accOp   `json:"ops"`
}

var otherRetrievals = []struct{ path, doc string }{
	{`$[*]`, `[10,20,30,40,50,60]`},
	{`$..*`, `{"p":[1,2,{"q":3}],"r":{"s":[4]}}`},
	{`$.a[0:3]`, `{"a":[7,8,9]}`},
}

func init() {
	families["acchist"] = func(w *worker, inner []byte) {
		var c accHistCase
		if err := json.Unmarshal(inner, &c); err != nil {
			w.infra("bad acchist case: " + err.Error())
			return
		}
		text := cps(c.Text)
		for _, m := range []Mode{{}, {Number: true}} {
			w.count("C13:histories", 1)
			cfg := modelConfig(nil, true)
			pr := safeParse(text, &cfg)
			if pr.Err != nil || pr.Panic != nil {
				w.viol("C13", "accessor-history-parse-failed", text, "", fmt.Sprint(pr.Err, pr.Panic), "acchist", inner)
				return
			}
			doc := c.Doc.ToGo(m)
			before := snap(doc)
			r := safeCall(pr.F, doc)
			if r.Panic != nil || r.Err != nil {
				w.viol("C13", "accessor-history-retrieval-failed", text, before, fmt.Sprint(r.Err, r.Panic), "acchist", inner)
				return
			}
			if len(r.Vals) != len(c.Locs) {
				w.viol("C13", "accessors-do-not-correspond-to-the-selected-locations", text, before, fmt.Sprintf("%d accessors returned, the path selects %d locations", len(r.Vals), len(c.Locs)), "acchist", inner)
				return
			}
			accs := make([]jsonpath.Accessor, len(r.Vals))
			for i := range r.Vals {
				a, ok := r.Vals[i].(jsonpath.Accessor)
				if !ok || a.Get == nil || a.Set == nil {
					w.viol("C13", "set-missing", text, before, fmt.Sprintf("result %d (%s) is not a complete accessor", i, locString(c.Locs[i])), "acchist", inner)
					return
				}
				accs[i] = a
			}
			trail := ""
			var others []interface{} // kept alive until the history ends
			for n, op := range c.Ops {
				i := op.I - 1
				v := op.V.ToGo(m)
				trail += fmt.Sprintf(" %s(%d,%s)", op.K, i, snap(v))
				w.count("C13:history-steps", 1)
				var p interface{}
				func() {
					defer func() { p = recover() }()
					if op.K == "other" {
						// an unrelated retrieval in accessor mode; the caller keeps those accessors too and reads them
						o := otherRetrievals[(op.I-1)%len(otherRetrievals)]
						var od interface{}
						json.Unmarshal([]byte(o.doc), &od)
						if po := safeParse(o.path, &cfg); po.F != nil {
							ro := safeCall(po.F, od)
							for _, x := range ro.Vals {
								if xa, ok := x.(jsonpath.Accessor); ok && xa.Get != nil {
									xa.Get()
								}
							}
							others = append(others, ro.Vals, od)
						}
						return
					}
					if op.K == "set" {
						accs[i].Set(v)
						return
					}
					loc := c.Locs[i]
					parent, _ := atLoc(doc, loc[:len(loc)-1])
					last := loc[len(loc)-1]
					switch pc := parent.(type) {
					case map[string]interface{}:
						pc[cps(*last.K)] = v
					case []interface{}:
						pc[*last.I] = v
					}
				}()
				if p != nil {
					w.viol("C13", "set-panics", text, before, fmt.Sprintf("step %d of%s: %v", n, trail, p), "acchist", inner)
					return
				}
				if got, want := snap(doc), snap(op.Heap.ToGo(m)); got != want {
					w.viol("C13", "set-wrote-elsewhere", text, before, fmt.Sprintf("after%s the document is %s, the specification's heap %s", trail, got, want), "acchist", inner)
					return
				}
				for j := range accs {
					var g interface{}
					func() {
						defer func() {
							if e := recover(); e != nil {
								g = fmt.Sprint("panic: ", e)
							}
						}()
						g = accs[j].Get()
					}()
					_ = others
					if !op.Gets[j].matches(g) {
						w.viol("C13", "get-not-live", text, before, fmt.Sprintf("after%s accessor %d (%s) reads %s, the heap holds %s there", trail, j, locString(c.Locs[j]), snap(g), snap(op.Gets[j].ToGo(m))), "acchist", inner)
						return
					}
				}
			}
		}
	}
}
