package main

// Model values and path ASTs as TLC prints them (spec/JsonValue.tla, spec/Semantics.tla),
// and their conversion to the Go values the library is given.

import (
	"encoding/json"
	"fmt"
	"math"
	"reflect"
	"sort"
	"strconv"
	"strings"
)

// MV is a model value: {"t":"num","n":1000} ...
type MV struct {
	T   string `json:"t"`
	B   bool   `json:"b,omitempty"`
	N   int64  `json:"n,omitempty"`
	S   []int  `json:"s,omitempty"`
	A   []MV   `json:"a,omitempty"`
	O   []MKV  `json:"o,omitempty"`
	ID  int    `json:"id,omitempty"`
	Ty  int    `json:"ty,omitempty"`
	Seq bool   `json:"seq,omitempty"`
}
type MKV struct {
	Key []int `json:"key"`
	Val MV    `json:"val"`
}

type LocEl struct {
	K *[]int `json:"k,omitempty"`
	I *int   `json:"i,omitempty"`
}

func cps(a []int) string {
	var b strings.Builder
	for _, c := range a {
		b.WriteRune(rune(c))
	}
	return b.String()
}

func toCps(s string) []int {
	out := []int{}
	for _, r := range s {
		out = append(out, int(r))
	}
	return out
}

// Mode is a configuration dimension that must not change L1 responses (DESIGN 5.6).
type Mode struct {
	Number   bool // decode numbers as json.Number
	NumStyle int  // 0 shortest, 1 "1.0"/"1.50", 2 exponent form  (json.Number only)
	MapOrder int  // insertion order variant for objects
	Share    bool // equal non-empty containers of one document are ONE Go object (a document assembled in memory
	// from shared parts: a DAG, still the same JSON value)
}

func numText(n int64, style int) string {
	f := float64(n) / 1000
	switch style {
	case 1:
		return strconv.FormatFloat(f, 'f', 3, 64)
	case 2:
		return strconv.FormatFloat(f, 'e', -1, 64)
	}
	return strconv.FormatFloat(f, 'f', -1, 64)
}

// opaque Go values (C20): table indexed by ty; see opaque.go
func (v MV) ToGo(m Mode) interface{} {
	if m.Share {
		m.Share = false
		return v.toGoShared(m, map[string]interface{}{})
	}
	return v.toGo(m)
}

// HasSharing reports whether two equal non-empty containers occur in v
func (v MV) HasSharing() bool {
	seen := map[string]bool{}
	var walk func(x MV) bool
	walk = func(x MV) bool {
		if (x.T == "arr" && len(x.A) > 0) || (x.T == "obj" && len(x.O) > 0) {
			b, _ := json.Marshal(x)
			if seen[string(b)] {
				return true
			}
			seen[string(b)] = true
		}
		for i := range x.A {
			if walk(x.A[i]) {
				return true
			}
		}
		for i := range x.O {
			if walk(x.O[i].Val) {
				return true
			}
		}
		return false
	}
	return walk(v)
}

func (v MV) toGoShared(m Mode, memo map[string]interface{}) interface{} {
	switch {
	case v.T == "arr" && len(v.A) > 0:
		b, _ := json.Marshal(v)
		if g, ok := memo[string(b)]; ok {
			return g
		}
		out := make([]interface{}, len(v.A))
		for i := range v.A {
			out[i] = v.A[i].toGoShared(m, memo)
		}
		memo[string(b)] = out
		return out
	case v.T == "obj" && len(v.O) > 0:
		b, _ := json.Marshal(v)
		if g, ok := memo[string(b)]; ok {
			return g
		}
		out := make(map[string]interface{}, len(v.O))
		for i := range v.O {
			out[cps(v.O[i].Key)] = v.O[i].Val.toGoShared(m, memo)
		}
		memo[string(b)] = out
		return out
	}
	return v.toGo(m)
}

func (v MV) toGo(m Mode) interface{} {
	switch v.T {
	case "null":
		return nil
	case "bool":
		return v.B
	case "num":
		if m.Number {
			return json.Number(numText(v.N, m.NumStyle))
		}
		return float64(v.N) / 1000
	case "str":
		return cps(v.S)
	case "arr":
		out := make([]interface{}, len(v.A))
		for i := range v.A {
			out[i] = v.A[i].toGo(m)
		}
		return out
	case "obj":
		var out map[string]interface{}
		idx := make([]int, len(v.O))
		for i := range idx {
			idx[i] = i
		}
		switch m.MapOrder % 4 {
		case 0:
			out = map[string]interface{}{}
		case 1:
			out = make(map[string]interface{}, 2*len(v.O)+3)
			for i, j := 0, len(idx)-1; i < j; i, j = i+1, j-1 {
				idx[i], idx[j] = idx[j], idx[i]
			}
		case 2:
			out = map[string]interface{}{}
			// interleave from the middle
			sort.Slice(idx, func(a, b int) bool { return (idx[a]*7+3)%(len(idx)+1) < (idx[b]*7+3)%(len(idx)+1) })
		case 3:
			// grow then delete junk so that buckets are laid out differently
			out = map[string]interface{}{}
			for i := 0; i < 20; i++ {
				out["\x00junk"+strconv.Itoa(i)] = i
			}
			for i := 0; i < 20; i++ {
				delete(out, "\x00junk"+strconv.Itoa(i))
			}
		}
		for _, i := range idx {
			out[cps(v.O[i].Key)] = v.O[i].Val.toGo(m)
		}
		return out
	case "opq":
		return opaqueValue(v.ID, v.Ty)
	}
	panic("bad model value tag " + v.T)
}

// matches reports whether the Go value g is the model value v (numbers by numeric value,
// whatever the decoding; opaque values by identity class).
func (v MV) matches(g interface{}) bool {
	switch v.T {
	case "null":
		return g == nil
	case "bool":
		b, ok := g.(bool)
		return ok && b == v.B
	case "num":
		f, ok := numOf(g)
		return ok && math.Abs(f-float64(v.N)/1000) < 1e-9
	case "str":
		s, ok := g.(string)
		if ok && curVariant == 1 && wrapperNames[cps(v.S)] {
			// the name tag of a wrapper function of implementation variant 1 must carry the marker
			return s == cps(v.S)+variantMark
		}
		return ok && s == cps(v.S)
	case "arr":
		a, ok := g.([]interface{})
		if !ok || len(a) != len(v.A) {
			return false
		}
		for i := range a {
			if !v.A[i].matches(a[i]) {
				return false
			}
		}
		return true
	case "obj":
		o, ok := g.(map[string]interface{})
		if !ok || len(o) != len(v.O) {
			return false
		}
		for _, kv := range v.O {
			x, ok := o[cps(kv.Key)]
			if !ok || !kv.Val.matches(x) {
				return false
			}
		}
		return true
	case "opq":
		return opaqueIs(g, v.ID, v.Ty)
	}
	return false
}

func numOf(g interface{}) (float64, bool) {
	switch x := g.(type) {
	case float64:
		return x, true
	case json.Number:
		f, err := x.Float64()
		return f, err == nil
	}
	return 0, false
}

// snap is a structural snapshot that distinguishes everything C04 cares about: Go types,
// number spellings, map contents, slice lengths.  Opaque values by %T and pointer/value print.
func snap(g interface{}) string {
	var b strings.Builder
	snapInto(&b, g)
	return b.String()
}

func snapInto(b *strings.Builder, g interface{}) {
	switch x := g.(type) {
	case nil:
		b.WriteString("null")
	case bool:
		fmt.Fprintf(b, "%v", x)
	case float64:
		fmt.Fprintf(b, "f%v", x)
	case json.Number:
		fmt.Fprintf(b, "n%s", string(x))
	case string:
		fmt.Fprintf(b, "%q", x)
	case []interface{}:
		b.WriteByte('[')
		for i := range x {
			if i > 0 {
				b.WriteByte(',')
			}
			snapInto(b, x[i])
		}
		b.WriteByte(']')
	case map[string]interface{}:
		keys := make([]string, 0, len(x))
		for k := range x {
			keys = append(keys, k)
		}
		sort.Strings(keys)
		b.WriteByte('{')
		for i, k := range keys {
			if i > 0 {
				b.WriteByte(',')
			}
			fmt.Fprintf(b, "%q:", k)
			snapInto(b, x[k])
		}
		b.WriteByte('}')
	default:
		b.WriteString(opaqueSnap(g))
	}
}

func goTypeName(g interface{}) string {
	if g == nil {
		return "null"
	}
	return reflect.TypeOf(g).String()
}

// ---------------------------------------------------------------- path AST

type Path struct {
	K     string `json:"k"`
	Root  string `json:"root"`
	Steps []Step `json:"steps"`
	Funcs []Func `json:"funcs"`
}
type Func struct {
	K string `json:"k"`
	N []int  `json:"n"`
}
type Step struct {
	K    string `json:"k"`
	N    []int  `json:"n,omitempty"`
	Ids  []Step `json:"ids,omitempty"`
	Subs []Sub  `json:"subs,omitempty"`
	Q    *Query `json:"q,omitempty"`
}
type Sub struct {
	K  string `json:"k"`
	N  int    `json:"n"`
	S  int    `json:"s"`
	So bool   `json:"so"`
	E  int    `json:"e"`
	Eo bool   `json:"eo"`
	C  int    `json:"c"`
	Co bool   `json:"co"`
}
type Operand struct {
	K     string `json:"k"`
	V     *MV    `json:"v,omitempty"`
	Root  string `json:"root,omitempty"`
	Steps []Step `json:"steps,omitempty"`
	Funcs []Func `json:"funcs,omitempty"`
}
type Query struct {
	K  string          `json:"k"`
	P  *Operand        `json:"p,omitempty"`
	L  json.RawMessage `json:"l,omitempty"`
	R  json.RawMessage `json:"r,omitempty"`
	Q  *Query          `json:"q,omitempty"`
	Op string          `json:"op,omitempty"`
	Re string          `json:"re,omitempty"`
}

func (q *Query) lq() *Query   { var x Query; mustUn(q.L, &x); return &x }
func (q *Query) rq() *Query   { var x Query; mustUn(q.R, &x); return &x }
func (q *Query) lo() *Operand { var x Operand; mustUn(q.L, &x); return &x }
func (q *Query) ro() *Operand { var x Operand; mustUn(q.R, &x); return &x }

func mustUn(b []byte, v interface{}) {
	if err := json.Unmarshal(b, v); err != nil {
		panic(fmt.Sprintf("harness: cannot decode %s: %v", b, err))
	}
}

// ---------------------------------------------------------------- canonical rendering
// (mirror of spec/Render.tla under Canon; every case asserts that it agrees with TLC's text,
// so it is bound to the specification and only used for sub-paths TLC did not print)

var bigText = map[int]string{
	1000001: "2147483648", 1000002: "9223372036854775807",
	-1000001: "-2147483649", -1000002: "-9223372036854775807", -1000003: "-9223372036854775808",
}

func intText(n int) string {
	if s, ok := bigText[n]; ok {
		return s
	}
	return strconv.Itoa(n)
}

func isSign(c int) bool {
	return (c >= 32 && c <= 44) || c == 46 || c == 47 || (c >= 58 && c <= 64) || (c >= 91 && c <= 94) || c == 96 || (c >= 123 && c <= 126)
}

func dotKey(n []int) string {
	var b strings.Builder
	for _, c := range n {
		if isSign(c) {
			b.WriteByte('\\')
		}
		b.WriteRune(rune(c))
	}
	return b.String()
}

func quoteKey(n []int, q rune) string {
	var b strings.Builder
	b.WriteRune(q)
	for _, c := range n {
		switch {
		case rune(c) == q || c == 92:
			b.WriteByte('\\')
			b.WriteRune(rune(c))
		case c < 32:
			fmt.Fprintf(&b, "\\u%04x", c)
		default:
			b.WriteRune(rune(c))
		}
	}
	b.WriteRune(q)
	return b.String()
}

func subText(s Sub) string {
	switch s.K {
	case "idx":
		return intText(s.N)
	case "star":
		return "*"
	}
	p := func(n int, o bool) string {
		if o {
			return ""
		}
		return intText(n)
	}
	r := p(s.S, s.So) + ":" + p(s.E, s.Eo)
	if !s.Co {
		r += ":" + intText(s.C)
	}
	return r
}

func litText(v MV) string {
	switch v.T {
	case "null":
		return "null"
	case "bool":
		if v.B {
			return "true"
		}
		return "false"
	case "num":
		return numText(v.N, 0)
	case "str":
		var b strings.Builder
		b.WriteByte('\'')
		for _, c := range v.S {
			if c == '\'' || c == '\\' {
				b.WriteByte('\\')
			}
			b.WriteRune(rune(c))
		}
		b.WriteByte('\'')
		return b.String()
	}
	panic("bad literal")
}

func stepText(s Step, ctx string) string {
	switch s.K {
	case "name":
		if ctx == "dot" {
			return "." + dotKey(s.N)
		}
		return dotKey(s.N)
	case "wild":
		if ctx == "dot" {
			return ".*"
		}
		return "*"
	case "multi":
		parts := []string{}
		for _, id := range s.Ids {
			if id.K == "wild" {
				parts = append(parts, "*")
			} else {
				parts = append(parts, quoteKey(id.N, '\''))
			}
		}
		return "[" + strings.Join(parts, ",") + "]"
	case "union":
		parts := []string{}
		for _, x := range s.Subs {
			parts = append(parts, subText(x))
		}
		return "[" + strings.Join(parts, ",") + "]"
	case "filter":
		return "[?(" + queryText(s.Q) + ")]"
	case "rec":
		return ".."
	}
	panic("bad step " + s.K)
}

func stepsText(ss []Step) string {
	var b strings.Builder
	for i, s := range ss {
		ctx := "dot"
		if i > 0 && ss[i-1].K == "rec" {
			ctx = "rec"
		}
		b.WriteString(stepText(s, ctx))
	}
	return b.String()
}

func funcsText(fs []Func) string {
	var b strings.Builder
	for _, f := range fs {
		b.WriteString("." + cps(f.N) + "()")
	}
	return b.String()
}

func operandText(o *Operand) string {
	if o.K == "lit" {
		return litText(*o.V)
	}
	return o.Root + stepsText(o.Steps) + funcsText(o.Funcs)
}

var reText = map[string]string{"a": "a", "^a$": "^a$", "^.*$": "^.*$", "b+": "b+"}

func queryText(q *Query) string {
	switch q.K {
	case "exist":
		return operandText(q.P)
	case "not":
		return "!" + operandText(q.P)
	case "and":
		return queryText(q.lq()) + "&&" + queryText(q.rq())
	case "or":
		return queryText(q.lq()) + "||" + queryText(q.rq())
	case "paren":
		return "(" + queryText(q.Q) + ")"
	case "cmp":
		return operandText(q.lo()) + q.Op + operandText(q.ro())
	case "re":
		return operandText(q.lo()) + "=~/" + reText[q.Re] + "/"
	}
	panic("bad query " + q.K)
}

func (p Path) Text() string { return p.Root + stepsText(p.Steps) + funcsText(p.Funcs) }

// usesRootOperand reports whether some filter in the steps mentions `$` (C08 excludes such Q)
func stepsUseRoot(ss []Step) bool {
	for _, s := range ss {
		if s.K == "filter" && queryUsesRoot(s.Q) {
			return true
		}
	}
	return false
}

func operandUsesRoot(o *Operand) bool {
	if o.K == "lit" {
		return false
	}
	return o.Root == "$" || stepsUseRoot(o.Steps)
}

func queryUsesRoot(q *Query) bool {
	switch q.K {
	case "exist", "not":
		return operandUsesRoot(q.P)
	case "and", "or":
		return queryUsesRoot(q.lq()) || queryUsesRoot(q.rq())
	case "paren":
		return queryUsesRoot(q.Q)
	case "cmp":
		return operandUsesRoot(q.lo()) || operandUsesRoot(q.ro())
	case "re":
		return operandUsesRoot(q.lo())
	}
	return false
}

// stepKinds gives a coarse signature of a path for coverage counting: "name rec+multi filter"
func stepKinds(ss []Step) string {
	parts := []string{}
	for i := 0; i < len(ss); i++ {
		if ss[i].K == "rec" && i+1 < len(ss) {
			parts = append(parts, "rec+"+ss[i+1].K)
			i++
		} else {
			parts = append(parts, ss[i].K)
		}
	}
	return strings.Join(parts, " ")
}

// variant: another document of a similar shape (so that the same paths mostly still apply) with other values:
// kind 0 empties every array, kind 1 reverses and extends them; scalars change.  Used to give a parsed function
// a PAST on another document before the call that is judged.
func (v MV) variant(kind int) MV {
	switch v.T {
	case "num":
		return MV{T: "num", N: v.N + 1000}
	case "str":
		return MV{T: "str", S: append(append([]int{}, v.S...), 120)}
	case "bool":
		return MV{T: "bool", B: !v.B}
	case "arr":
		if kind == 0 {
			return MV{T: "arr"}
		}
		out := MV{T: "arr"}
		for i := len(v.A) - 1; i >= 0; i-- {
			out.A = append(out.A, v.A[i].variant(kind))
		}
		out.A = append(out.A, MV{T: "num", N: 7000})
		return out
	case "obj":
		out := MV{T: "obj"}
		for _, kv := range v.O {
			out.O = append(out.O, MKV{Key: kv.Key, Val: kv.Val.variant(kind)})
		}
		return out
	}
	return v
}
