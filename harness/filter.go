package main

// Family "filter" (C09, C10): `$.l[?(q)]` over a container with pairwise distinct members.
// The Boolean-algebra and duality laws are checked on the real selections (no expected values);
// the selection itself against the specification's Holds when determined; C10: the same members are
// selected whatever the number decoding and spelling.

import (
	"encoding/json"
	"fmt"
	"sort"
	"strings"
)

func init() {
	families["filter"] = func(w *worker, inner []byte) {
		var c selCase
		if err := json.Unmarshal(inner, &c); err != nil {
			w.infra("bad filter case: " + err.Error())
			return
		}
		w.runFilter(&c, inner)
	}
}

type selection struct {
	idx   []int // selected member positions, in result order
	err   string
	panic interface{}
	hard  bool // a real panic of the library call (not an unexpected error)
}

func (s selection) String() string {
	if s.panic != nil {
		return fmt.Sprintf("PANIC(%v)", s.panic)
	}
	return fmt.Sprintf("%v", s.idx)
}

func sameIdx(a, b []int) bool {
	if len(a) != len(b) {
		return false
	}
	for i := range a {
		if a[i] != b[i] {
			return false
		}
	}
	return true
}

func setOp(a, b []int, n int, op string) []int {
	in := func(x []int, i int) bool {
		for _, v := range x {
			if v == i {
				return true
			}
		}
		return false
	}
	out := []int{}
	for i := 0; i < n; i++ {
		switch op {
		case "and":
			if in(a, i) && in(b, i) {
				out = append(out, i)
			}
		case "or":
			if in(a, i) || in(b, i) {
				out = append(out, i)
			}
		case "not":
			if !in(a, i) {
				out = append(out, i)
			}
		}
	}
	return out
}

var mirrorOp = map[string]string{"<": ">", "<=": ">=", ">": "<", ">=": "<=", "==": "==", "!=": "!="}

func bothPaths(q *Query) bool { return q.lo().K != "lit" && q.ro().K != "lit" }

func (w *worker) runFilter(c *selCase, raw []byte) {
	P := w.props
	q := c.Path.Steps[1].Q
	qtext := queryText(q)
	canon := cps(c.Texts[0].Text)
	if c.Path.Text() != canon {
		w.infra(fmt.Sprintf("renderer mismatch: go=%q tlc=%q", c.Path.Text(), canon))
		return
	}
	w.count("cases", 1)
	w.count("query:"+q.K, 1)
	if q.K == "cmp" {
		w.count("op:"+q.Op, 1)
	}
	// the container and its members
	var cont MV
	for _, kv := range c.Doc.O {
		if cps(kv.Key) == "l" {
			cont = kv.Val
		}
	}
	n := len(cont.A) + len(cont.O)
	modes := []Mode{{}, {Number: true}}
	if P["C10"] {
		modes = append(modes, Mode{Number: true, NumStyle: 1}, Mode{Number: true, NumStyle: 2})
	}
	var first *selection
	for mi, m := range modes {
		if m.NumStyle > 0 && q.K == "cmp" && bothPaths(q) && (q.Op == "==" || q.Op == "!=") {
			continue // C10: path == path on json.Number is specified for the shortest spelling only
		}
		if m.NumStyle > 0 && q.K != "cmp" {
			if !queryIsSpellingSafe(q) {
				continue
			}
		}
		doc := c.Doc.ToGo(m)
		before := snap(doc)
		var members []interface{}
		switch l := doc.(map[string]interface{})["l"].(type) {
		case []interface{}:
			members = l
		case map[string]interface{}:
			keys := make([]string, 0, len(l))
			for k := range l {
				keys = append(keys, k)
			}
			sort.Strings(keys)
			for _, k := range keys {
				members = append(members, l[k])
			}
		}
		pos := map[string]int{}
		for i, mv := range members {
			pos[snap(mv)] = i
		}
		cfg := modelConfig(nil, false)
		variant := variantDoc(c.Doc.ToGo(m))
		sel := func(qt string) selection {
			pr := safeParse("$.l[?("+qt+")]", &cfg)
			if pr.Panic != nil || pr.Err != nil {
				return selection{panic: fmt.Sprintf("parse of %q failed: %v %v", qt, pr.Err, pr.Panic)}
			}
			if mi%2 == 1 {
				// a parsed function that has been used before, on ANOTHER document (other members, other `$.x`, `$.y`):
				// every law must hold for it as it does for a fresh one
				safeCall(pr.F, variant)
			}
			r := safeCall(pr.F, doc)
			if r.Panic != nil {
				return selection{panic: r.Panic, hard: true}
			}
			if r.Err != nil {
				if errClass(r.Err) != "mne" {
					return selection{panic: "unexpected error " + r.Err.Error(), hard: strings.HasPrefix(errClass(r.Err), "other:")}
				}
				return selection{idx: []int{}, err: r.Err.Error()}
			}
			out := selection{}
			for _, v := range r.Vals {
				i, ok := pos[snap(v)]
				if !ok {
					return selection{panic: "returned a value that is not a member: " + snap(v)}
				}
				out.idx = append(out.idx, i)
			}
			return out
		}
		whole := sel(qtext)
		mode := fmt.Sprintf("decode=%+v", m)
		prop9 := primary(P, "C09", "C10")
		if P["C03"] {
			// totality only: the call returns, with members or with a documented error
			w.count("C03:filter-evaluations", 1)
			if whole.hard {
				w.viol("C03", "panic", canon, before, mode+": "+whole.String(), q.K, raw)
				return
			}
			if !P["C09"] && !P["C10"] && !P["C04"] {
				continue
			}
		}
		if whole.panic != nil {
			w.viol(prop9, "filter-failed", canon, before, mode+": "+whole.String(), q.K, raw)
			return
		}
		if !sort.IntsAreSorted(whole.idx) {
			w.viol(prop9, "not-in-container-order", canon, before, mode+": "+whole.String(), q.K, raw)
		}
		if snap(doc) != before {
			w.viol(primary(P, "C04", "C09", "C10"), "document-modified", canon, before, "after: "+snap(doc), q.K, raw)
			return
		}
		// ---- against the specification (L1 Holds)
		if c.Det && mi < 2 {
			w.count(prop9+":compared-with-spec", 1)
			want := []int{}
			for _, ev := range c.Res.Vals {
				last := ev.Loc[len(ev.Loc)-1]
				if last.I != nil {
					want = append(want, *last.I)
				} else {
					for i, kv := range cont.O {
						if cps(kv.Key) == cps(*last.K) {
							want = append(want, i)
						}
					}
				}
			}
			if !sameIdx(want, whole.idx) {
				kind := "selection-differs-from-spec"
				w.viol(prop9, kind, canon, before, fmt.Sprintf("%s: members selected %v, specification selects %v", mode, whole.idx, want), q.K+q.Op, raw)
			}
		}
		// ---- C10: the same members whatever the decoding / spelling of numbers
		if P["C10"] {
			if first == nil {
				first = &whole
			} else {
				w.count("C10:mode-pairs", 1)
				if !sameIdx(first.idx, whole.idx) {
					w.viol("C10", "decode-mode-changes-selection", canon, before, fmt.Sprintf("float64 decoding selects %v, %s selects %v", first.idx, mode, whole.idx), q.K+q.Op, raw)
				}
			}
		}
		if !P["C09"] || mi >= 2 {
			continue
		}
		// ---- C09 laws on the real selections
		law := func(name string, want []int, detail string) {
			w.count("C09:law:"+name, 1)
			if !sameIdx(want, whole.idx) {
				w.viol("C09", "law-"+name, canon, before, fmt.Sprintf("%s: %s selects %v, but %s gives %v", mode, qtext, whole.idx, detail, want), name, raw)
			}
		}
		sub := func(qq *Query) (selection, bool) {
			s := sel(queryText(qq))
			if s.panic != nil {
				w.viol("C09", "part-failed", "$.l[?("+queryText(qq)+")]", before, s.String(), "part", raw)
				return s, false
			}
			return s, true
		}
		switch q.K {
		case "and", "or":
			a, ok1 := sub(q.lq())
			b, ok2 := sub(q.rq())
			if ok1 && ok2 {
				name := map[string]string{"and": "intersection", "or": "union"}[q.K]
				law(name, setOp(a.idx, b.idx, n, q.K), fmt.Sprintf("%s of %v and %v", name, a.idx, b.idx))
			}
		case "not":
			if a, ok := sub(&Query{K: "exist", P: q.P}); ok {
				law("complement", setOp(a.idx, nil, n, "not"), fmt.Sprintf("complement of %v", a.idx))
			}
		case "cmp":
			lraw, rraw := q.L, q.R
			mk := func(op string, l, r json.RawMessage) *Query { return &Query{K: "cmp", Op: op, L: l, R: r} }
			if a, ok := sub(mk(mirrorOp[q.Op], rraw, lraw)); ok {
				law("mirror", a.idx, "the mirrored comparison "+queryText(mk(mirrorOp[q.Op], rraw, lraw)))
			}
			if q.Op == "!=" {
				if a, ok := sub(mk("==", lraw, rraw)); ok {
					law("ne-is-complement-of-eq", setOp(a.idx, nil, n, "not"), fmt.Sprintf("complement of == %v", a.idx))
				}
			}
			if (q.Op == "<=" || q.Op == ">=") && (q.lo().K == "lit" || q.ro().K == "lit") {
				strict := strings.TrimSuffix(q.Op, "=")
				a, ok1 := sub(mk(strict, lraw, rraw))
				b, ok2 := sub(mk("==", lraw, rraw))
				if ok1 && ok2 {
					law("le-is-lt-or-eq", setOp(a.idx, b.idx, n, "or"), fmt.Sprintf("union of %s %v and == %v", strict, a.idx, b.idx))
				}
			}
		}
	}
	w.distinct(qtext + "|" + fmt.Sprint(n))
}

// a query whose outcome cannot depend on how a json.Number is spelled (no path == path inside)
func queryIsSpellingSafe(q *Query) bool {
	switch q.K {
	case "and", "or":
		return queryIsSpellingSafe(q.lq()) && queryIsSpellingSafe(q.rq())
	case "paren":
		return queryIsSpellingSafe(q.Q)
	case "cmp":
		return !(bothPaths(q) && (q.Op == "==" || q.Op == "!="))
	}
	return true
}

// variantDoc: the same shape with `x` and `y` exchanged (or invented when absent) and the members reversed
func variantDoc(d interface{}) interface{} {
	m, ok := d.(map[string]interface{})
	if !ok {
		return d
	}
	out := map[string]interface{}{}
	x, hx := m["x"]
	y, hy := m["y"]
	switch {
	case hx && hy:
		out["x"], out["y"] = y, x
	case hx:
		out["y"] = x
	case hy:
		out["x"] = y
	default:
		out["x"], out["y"] = 7.0, "s"
	}
	switch l := m["l"].(type) {
	case []interface{}:
		r := make([]interface{}, len(l))
		for i := range l {
			r[len(l)-1-i] = l[i]
		}
		out["l"] = append(r, map[string]interface{}{"a": 1.0, "b": 2.0})
	case map[string]interface{}:
		r := map[string]interface{}{"k0": map[string]interface{}{"a": 1.0, "b": 2.0}}
		for k, v := range l {
			r[k+"v"] = v
		}
		out["l"] = r
	default:
		out["l"] = m["l"]
	}
	return out
}
