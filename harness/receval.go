package main

// Direction B, evaluation: (path text, document) pairs evaluated by the real library and recorded
// for Trace_Eval.tla, which parses the TEXT with Peg + Actions and evaluates it with Select/Failure.

import (
	"bufio"
	"encoding/hex"
	"encoding/json"
	"flag"
	"fmt"
	"math"
	"math/rand"
	"os"
	"regexp"
	"sort"
	"strconv"
	"strings"

	"github.com/AsaiYusuke/jsonpath"
)

type exact struct{ ok bool }

// toModel converts a decoded Go document into the wire form of a model value; ok=false when a
// number needs more than three decimals or is out of the model's range
func toModel(g interface{}, ex *exact, strs *[]string) map[string]interface{} {
	switch x := g.(type) {
	case nil:
		return map[string]interface{}{"t": "null"}
	case bool:
		return map[string]interface{}{"t": "bool", "b": x}
	case float64, json.Number:
		f, _ := numOf(x)
		m := f * 1000
		if math.IsInf(f, 0) || math.IsNaN(f) || math.Abs(f) >= 2e6 || math.Abs(m-math.Round(m)) > 1e-9 {
			ex.ok = false
			return map[string]interface{}{"t": "num", "n": 0}
		}
		if n, isN := x.(json.Number); isN && string(n) != numText(int64(math.Round(m)), 0) {
			// json.Number keeps its spelling; path==path comparison of numbers is only specified for
			// Go's shortest formatting (C10), so other spellings make the record unmodellable
			ex.ok = false
		}
		return map[string]interface{}{"t": "num", "n": int64(math.Round(m))}
	case string:
		if strs != nil {
			*strs = append(*strs, x)
		}
		return map[string]interface{}{"t": "str", "s": toCps(x)}
	case []interface{}:
		a := make([]interface{}, len(x))
		for i := range x {
			a[i] = toModel(x[i], ex, strs)
		}
		return map[string]interface{}{"t": "arr", "a": a}
	case map[string]interface{}:
		keys := make([]string, 0, len(x))
		for k := range x {
			keys = append(keys, k)
		}
		sort.Strings(keys)
		o := make([]interface{}, len(keys))
		for i, k := range keys {
			o[i] = map[string]interface{}{"key": toCps(k), "val": toModel(x[k], ex, strs)}
		}
		return map[string]interface{}{"t": "obj", "o": o}
	}
	ex.ok = false
	return map[string]interface{}{"t": "null"}
}

var goTag = map[string]string{"null": "null", "bool": "bool", "float64": "num", "json.Number": "num", "string": "str", "[]interface {}": "arr", "map[string]interface {}": "obj"}

var reMNE = regexp.MustCompile(`(?s)^member did not exist \(path=(.*)\)$`)
var reTU = regexp.MustCompile(`(?s)^type unmatched \(expected=(.*?), found=(.*?), path=(.*)\)$`)
var reFF = regexp.MustCompile(`(?s)^function failed \(function=(.*?), error=(.*)\)$`)

func init() {
	families["receval"] = func(w *worker, inner []byte) {
		var c recCase
		if err := json.Unmarshal(inner, &c); err != nil {
			w.infra("bad receval case: " + err.Error())
			return
		}
		w.recordEval(&c, inner)
	}
	commands["gen-eval"] = genEvalMain
	commands["lawfuzz"] = lawFuzzMain
}

func decodeDoc(text string, number bool) (interface{}, error) {
	dec := json.NewDecoder(strings.NewReader(text))
	if number {
		dec.UseNumber()
	}
	var v interface{}
	err := dec.Decode(&v)
	return v, err
}

func (w *worker) recordEval(c *recCase, raw []byte) {
	P := w.props
	b, _ := hex.DecodeString(c.Hex)
	text := string(b)
	rs := []rune(text)
	w.count("cases", 1)
	w.count("src:"+c.Src, 1)
	firstNorm := ""
	for _, number := range []bool{false, true} {
		doc, err := decodeDoc(c.Doc, number)
		if err != nil {
			if !number {
				w.count("float64-decoding-rejects-document(json.Number only)", 1)
				continue
			}
			w.infra("generator produced an undecodable document: " + err.Error())
			return
		}
		before := snap(doc)
		if P["C04"] && w.lastDoc != nil && snap(w.lastDoc) != w.lastSnap {
			w.viol("C04", "earlier-document-modified-by-a-later-call", text, w.lastSnap, "the document of the previous retrieval reads "+snap(w.lastDoc)+" now (previous path: "+w.lastText+")", "doc", raw)
			w.lastDoc = nil
		}
		log := &callLog{}
		cfg := modelConfig(log, false)
		o := observeParse(text, &cfg)
		if o.Shape != "" {
			w.viol(primary(P, "C02", "C03"), "undocumented-outcome", text, before, o.Shape, o.Cls, raw)
			return
		}
		if o.Cls != "ok" {
			w.count("parse:"+o.Cls, 1)
			return // Trace_Parse's business
		}
		pr := safeParse(text, &cfg)
		r := safeCall(pr.F, doc)
		after := snap(doc)
		mode := "float64"
		if number {
			mode = "json.Number"
		}
		// ---- Go-side assertions
		shape := ""
		switch {
		case r.Panic != nil:
			shape = fmt.Sprintf("panic: %v", r.Panic)
		case r.Err == nil && len(r.Vals) == 0:
			shape = "returned (empty, nil)"
		case r.Err != nil && r.Vals != nil:
			shape = "returned values together with an error"
		case r.Err != nil && strings.HasPrefix(errClass(r.Err), "other"):
			shape = "undocumented error type: " + r.String()
		}
		if P["C03"] {
			w.count("C03:evaluations", 1)
		}
		if shape != "" {
			w.viol(primary(P, "C03", "C01"), "undocumented-outcome", text, before, "decode="+mode+": "+shape, "shape", raw)
			continue
		}
		if P["C04"] {
			w.count("C04:snapshots", 1)
		}
		if after != before {
			w.viol(primary(P, "C04", "C01"), "document-modified", text, before, "after the call: "+after, "doc", raw)
			continue
		}
		if P["C04"] {
			if w.lastDoc != nil && snap(w.lastDoc) != w.lastSnap {
				w.viol("C04", "earlier-document-modified-by-a-later-call", text, w.lastSnap, "this retrieval changed the document of the PREVIOUS retrieval ("+w.lastText+") to "+snap(w.lastDoc), "doc", raw)
			}
			w.lastDoc, w.lastSnap, w.lastText = doc, after, text
		}
		// ---- C10: the same members whatever the number decoding (numbers compared by value)
		if P["C10"] && c.Src != "extreme-numbers" {
			norm := ""
			if r.Err != nil {
				norm = "ERR " + errClass(r.Err)
			} else {
				parts := []string{}
				for _, v := range r.Vals {
					parts = append(parts, nsnap(v))
				}
				norm = strings.Join(parts, ",")
			}
			if !number {
				firstNorm = norm
			} else {
				w.count("C10:mode-pairs", 1)
				if norm != firstNorm {
					w.viol("C10", "decode-mode-changes-result", text, before, fmt.Sprintf("decoded to float64: %s ; decoded to json.Number: %s", firstNorm, norm), "traceB", raw)
				}
			}
		}
		if r.Err == nil {
			w.distinct(fmt.Sprintf("ok|%d|%s", len(r.Vals), c.Src))
		} else {
			w.distinct("err|" + errClass(r.Err) + "|" + c.Src)
		}
		// ---- C12: the same evaluation in accessor mode (oracle-free parity)
		if P["C12"] {
			w.count("C12:pairs", 1)
			d2, _ := decodeDoc(c.Doc, number)
			alog := &callLog{}
			acfg := modelConfig(alog, true)
			apr := safeParse(text, &acfg)
			if apr.Err != nil || apr.Panic != nil {
				w.viol("C12", "accessor-parse-differs", text, before, fmt.Sprintf("plain parse ok, accessor mode: %v %v", apr.Err, apr.Panic), "traceB", raw)
			} else {
				ar := safeCall(apr.F, d2)
				same := ar.Panic == nil && (ar.Err == nil) == (r.Err == nil)
				if same && r.Err != nil {
					same = ar.Err.Error() == r.Err.Error()
				} else if same {
					same = len(ar.Vals) == len(r.Vals)
					for i := 0; same && i < len(ar.Vals); i++ {
						a, isAcc := ar.Vals[i].(jsonpath.Accessor)
						same = isAcc && a.Get != nil && snap(a.Get()) == snap(r.Vals[i])
					}
				}
				if same {
					same = len(alog.calls) == len(log.calls)
					for i := 0; same && i < len(log.calls); i++ {
						same = !alog.calls[i].Acc && alog.calls[i].Fn == log.calls[i].Fn && snap(alog.calls[i].Arg) == snap(log.calls[i].Arg)
					}
				}
				if !same {
					w.viol("C12", "accessor-mode-differs", text, before, fmt.Sprintf("decode=%s: plain %s (calls %s), accessor mode %s (calls %s)", mode, r, logString(log.calls), ar, logString(alog.calls)), "traceB", raw)
				}
			}
		}
		// ---- the record for TLC
		ex := &exact{ok: true}
		var strs []string
		mdoc := toModel(doc, ex, &strs)
		res := map[string]interface{}{"ok": r.Err == nil, "vals": []interface{}{}, "e": "", "path": []int{}, "exp": "", "found": ""}
		if r.Err == nil {
			vals := make([]interface{}, len(r.Vals))
			for i, v := range r.Vals {
				vals[i] = toModel(v, ex, nil)
			}
			res["vals"] = vals
		} else {
			msg := r.Err.Error()
			res["e"] = errClass(r.Err)
			if m := reMNE.FindStringSubmatch(msg); m != nil {
				res["path"] = toCps(m[1])
			} else if m := reTU.FindStringSubmatch(msg); m != nil {
				res["exp"], res["found"], res["path"] = m[1], goTag[m[2]], toCps(m[3])
				if goTag[m[2]] == "" {
					res["found"] = "?" + m[2]
				}
			} else if m := reFF.FindStringSubmatch(msg); m != nil {
				res["path"] = toCps(m[1])
			}
		}
		if !ex.ok {
			w.count("unmodellable(numbers)", 1)
			continue
		}
		if strings.Count(text, "?(") > 4 {
			w.count("deep-nesting(Go-side checks only)", 1)
			continue
		}
		calls := []interface{}{}
		for _, cl := range log.calls {
			calls = append(calls, map[string]interface{}{"fn": toCps(cl.Fn), "arg": toModel(cl.Arg, ex, nil)})
		}
		if !ex.ok {
			w.count("unmodellable(numbers)", 1)
			continue
		}
		rec := map[string]interface{}{
			"log": calls,
			"id":  c.ID*2 + map[bool]int{false: 0, true: 1}[number], "s": toCps(text),
			"cfg":  map[string]interface{}{"ff": namesToCps(ffNames), "af": namesToCps(afNames)},
			"tabs": map[string]interface{}{"mode": "tables", "nums": numTables(rs), "res": reTables(rs, dedup(strs))},
			"doc":  mdoc, "res": res, "mode": mode,
		}
		rb, _ := json.Marshal(rec)
		w.res.Records = append(w.res.Records, rb)
		w.count("records", 1)
	}
}

func dedup(s []string) []string {
	seen := map[string]bool{}
	out := []string{}
	for _, x := range s {
		if !seen[x] {
			seen[x] = true
			out = append(out, x)
		}
	}
	return out
}

// ---------------------------------------------------------------- random well-formed paths and documents

type egen struct{ rnd *rand.Rand }

var ekeys = []string{"a", "b", "c", "a", "b", "é", "x y"}

func (g *egen) key() string { return ekeys[g.rnd.Intn(len(ekeys))] }

func (g *egen) doc(depth int) interface{} {
	k := g.rnd.Intn(10)
	if depth <= 0 && k >= 6 {
		k = g.rnd.Intn(6)
	}
	switch k {
	case 0:
		return nil
	case 1:
		return g.rnd.Intn(2) == 0
	case 2, 3:
		return []float64{0, 1, 2, 3, -1, 1.5, 2.25, 10, 100.125}[g.rnd.Intn(9)]
	case 4, 5:
		return []string{"a", "b", "", "ab", "é", "1"}[g.rnd.Intn(6)]
	case 6, 7:
		n := g.rnd.Intn(5)
		a := make([]interface{}, n)
		for i := range a {
			a[i] = g.doc(depth - 1)
		}
		return a
	}
	n := g.rnd.Intn(5)
	o := map[string]interface{}{}
	for i := 0; i < n; i++ {
		o[g.key()] = g.doc(depth - 1)
	}
	return o
}

func (g *egen) name() string {
	k := g.key()
	switch g.rnd.Intn(3) {
	case 0:
		return "['" + k + "']"
	case 1:
		return "[\"" + k + "\"]"
	}
	return "." + dotKey(toCps(k))
}

func (g *egen) num() string {
	return []string{"0", "1", "2", "-1", "1.5", "2.25", "10", "+1", "1.0", "3"}[g.rnd.Intn(10)]
}
func (g *egen) intg() string {
	return []string{"0", "1", "2", "-1", "-2", "3", "+1", "9223372036854775807", "-9223372036854775808", "5"}[g.rnd.Intn(10)]
}
func (g *egen) lit() string {
	switch g.rnd.Intn(5) {
	case 0:
		return g.num()
	case 1:
		return []string{"'a'", "\"b\"", "''", "'ab'"}[g.rnd.Intn(4)]
	case 2:
		return []string{"true", "false", "True"}[g.rnd.Intn(3)]
	case 3:
		return []string{"null", "NULL"}[g.rnd.Intn(2)]
	}
	return g.num()
}

func (g *egen) operand(depth int, root string) string {
	s := root
	n := g.rnd.Intn(3)
	for i := 0; i < n; i++ {
		switch g.rnd.Intn(5) {
		case 0:
			s += "[" + g.intg() + "]"
		case 1:
			if depth > 0 && g.rnd.Intn(3) == 0 {
				s += "[?(" + g.query(depth-1) + ")]" // value group: only valid for existence tests
			} else {
				s += g.name()
			}
		default:
			s += g.name()
		}
	}
	if g.rnd.Intn(8) == 0 {
		s += []string{".fid()", ".f1()", ".gcnt()"}[g.rnd.Intn(3)]
	}
	return s
}

func (g *egen) query(depth int) string {
	sp := func() string {
		if g.rnd.Intn(4) == 0 {
			return " "
		}
		return ""
	}
	k := g.rnd.Intn(12)
	if depth <= 0 && k >= 9 {
		k = g.rnd.Intn(9)
	}
	cur := func() string { return g.operand(depth, "@") }
	rootp := func() string { return g.operand(depth, "$") }
	ops := []string{"==", "!=", "<", "<=", ">", ">="}
	switch k {
	case 0:
		return cur()
	case 1:
		return "!" + sp() + cur()
	case 2:
		return cur() + sp() + ops[g.rnd.Intn(6)] + sp() + g.num()
	case 3:
		return g.num() + sp() + ops[g.rnd.Intn(6)] + sp() + cur()
	case 4:
		return cur() + sp() + ops[g.rnd.Intn(2)] + sp() + g.lit()
	case 5:
		return cur() + sp() + ops[g.rnd.Intn(6)] + sp() + rootp()
	case 6:
		return rootp() + sp() + ops[g.rnd.Intn(6)] + sp() + cur()
	case 7:
		return cur() + sp() + "=~" + sp() + "/" + []string{"a", "^a", "b$", ".", "^$", "[ab]+", "é"}[g.rnd.Intn(7)] + "/"
	case 8:
		if g.rnd.Intn(2) == 0 {
			return rootp()
		}
		return rootp() + sp() + ops[g.rnd.Intn(6)] + sp() + g.num()
	case 9:
		return g.query(depth-1) + sp() + "&&" + sp() + g.query(depth-1)
	case 10:
		return g.query(depth-1) + sp() + "||" + sp() + g.query(depth-1)
	}
	return "(" + sp() + g.query(depth-1) + sp() + ")"
}

func (g *egen) path() string {
	s := "$"
	if g.rnd.Intn(10) == 0 {
		s = ""
	}
	n := 1 + g.rnd.Intn(5)
	for i := 0; i < n; i++ {
		rec := ""
		if g.rnd.Intn(6) == 0 {
			rec = ".."
		}
		switch g.rnd.Intn(11) {
		case 0, 1, 2:
			nm := g.name()
			if rec != "" || (s == "" && i == 0) {
				nm = strings.TrimPrefix(nm, ".")
			}
			s += rec + nm
		case 3:
			if rec != "" || (s == "" && i == 0) {
				s += rec + "*"
			} else {
				s += ".*"
			}
		case 4:
			s += rec + "[*]"
		case 5:
			s += rec + "[" + g.intg() + "]"
		case 6:
			s += rec + "[" + g.intg() + "," + g.intg() + "]"
		case 7:
			p := func() string {
				if g.rnd.Intn(3) == 0 {
					return ""
				}
				return g.intg()
			}
			sl := p() + ":" + p()
			if g.rnd.Intn(2) == 0 {
				sl += ":" + p()
			}
			s += rec + "[" + sl + "]"
		case 8:
			s += rec + "['" + g.key() + "','" + g.key() + "']"
		case 9:
			s += rec + []string{"[*,*]", "[*,'a']", "[0,*]", "[*,1:]"}[g.rnd.Intn(4)]
		case 10:
			s += rec + "[?(" + g.query(2) + ")]"
		}
	}
	if s == "" {
		s = "$"
	}
	if g.rnd.Intn(6) == 0 {
		s += []string{".f1()", ".g1()", ".fodd()", ".f1().g2()", ".g1().f2()", ".ferr()", ".gerr()", ".gid()", ".gid().g2()"}[g.rnd.Intn(9)]
	}
	return s
}

func genEvalMain(args []string) {
	fs := flag.NewFlagSet("gen-eval", flag.ExitOnError)
	seed := fs.Int64("seed", 1, "")
	n := fs.Int("n", 1000, "random (path, document) pairs besides the corpus")
	corpus := fs.String("corpus", "", "file with one JSON object {path, doc} per line")
	fs.Parse(args)
	g := &egen{rnd: rand.New(rand.NewSource(*seed))}
	out := bufio.NewWriter(os.Stdout)
	defer out.Flush()
	id := 0
	emit := func(p, d, src string) {
		id++
		b, _ := json.Marshal(recCase{Fam: "receval", ID: id, Hex: hex.EncodeToString([]byte(p)), Doc: d, Src: src})
		out.Write(b)
		out.WriteByte('\n')
	}
	if *corpus != "" {
		f, err := os.Open(*corpus)
		if err != nil {
			fmt.Fprintln(os.Stderr, err)
			os.Exit(2)
		}
		sc := bufio.NewScanner(f)
		sc.Buffer(make([]byte, 1<<20), 1<<22)
		for sc.Scan() {
			var pr struct {
				Path string `json:"path"`
				Doc  string `json:"doc"`
			}
			if json.Unmarshal(sc.Bytes(), &pr) == nil {
				if _, err := decodeDoc(pr.Doc, false); err == nil {
					emit(pr.Path, pr.Doc, "corpus")
				}
			}
		}
	}
	// numbers at and beyond the limits of float64 / int64, and unusual spellings (json.Number keeps them)
	extreme := []string{`[{"a":1},{"a":1e400},{"a":"x"}]`, `[{"a":-1e400},{"a":2}]`, `{"a":-0,"b":1e-400,"c":123456789012345678901234567890}`,
		`[1e308,-1e308,0.1,1e21]`, `{"a":[9007199254740993,0.30000000000000004]}`, `[{"a":1E2},{"a":0.1e1},{"a":1.0},{"a":100}]`,
		`[1e400,1,"1e400"]`, `[{"a":9223372036854775807},{"a":-9223372036854775808},{"a":9223372036854775808}]`}
	extremePaths := []string{`$[?(@.a > 0)]`, `$[?(@.a < 1)]`, `$[?(@.a >= $[0].a)]`, `$[?(@ > 0)]`, `$[?(@ <= 1)]`, `$..[?(@.a <= 2)]`, `$[?(@.a == 1)]`,
		`$[?(@.a != $[1].a)]`, `$[?(@.a == $[0].a)]`, `$..a`, `$[*].a`, `$[?(0 < @.a)]`, `$[?(@.a == 100)]`, `$[?(@ == 1e400)]`, `$.a[?(@ > 1)]`, `$[?(@.a > $[1].a)]`}
	// call sequences: a retrieval with several hundred results, directly followed by queries that match nothing
	bigd, _ := json.Marshal(bigArray)
	for _, nomatch := range []string{`$[*].nope`, `$..nope`, `$.*[?(@.nope)]`, `$[?(@.nope)]`, `$[*][0]`, `$..[?(@.nope == 1)]`} {
		emit(`$[*]`, string(bigd), "big-then-nomatch")
		emit(nomatch, `[{"a":1},{"b":[2]},3]`, "big-then-nomatch")
		emit(`$..*`, string(bigd), "big-then-nomatch")
		emit(nomatch, `{"a":{"b":1},"c":[{"d":2}]}`, "big-then-nomatch")
	}
	for i := 0; i < *n; i++ {
		var d interface{}
		switch g.rnd.Intn(4) {
		case 0:
			d = []interface{}{g.doc(3), g.doc(3), g.doc(2)}
		case 1:
			d = map[string]interface{}{"a": g.doc(3), "b": g.doc(3), "c": g.doc(2)}
		default:
			d = g.doc(5)
		}
		db, _ := json.Marshal(d)
		ds := string(db)
		src := "random"
		p := g.path()
		if i%25 == 24 {
			ds, src = extreme[g.rnd.Intn(len(extreme))], "extreme-numbers"
			if g.rnd.Intn(4) > 0 {
				p = extremePaths[g.rnd.Intn(len(extremePaths))]
			}
		}
		emit(p, ds, src)
	}
}

// ---------------------------------------------------------------- C09 laws on numbers the model cannot hold

// lawfuzz: the duality laws of C09 (mirror, != complement of ==, <= is < or ==) are relations between real
// selections and need no expected values, so they can be checked on adjacent floating-point numbers, huge
// and tiny magnitudes -- values outside the three-decimal model of the specification.
func lawFuzzMain(args []string) {
	fs := flag.NewFlagSet("lawfuzz", flag.ExitOnError)
	seed := fs.Int64("seed", 1, "")
	n := fs.Int("n", 2000, "")
	parity := fs.Bool("parity", false, "C10: the same members under both number decodings")
	fs.Parse(args)
	rnd := rand.New(rand.NewSource(*seed))
	base := []float64{9.5e18, -9.5e18, 1e19, 18446744073709551616, 9223372036854775807, -9223372036854775808, 0.3, 0.1 + 0.2, math.Nextafter(0.3, 1), math.Nextafter(0.3, 0), 1, math.Nextafter(1, 2), 1e-320, 0, 1e308, -1e308, 9007199254740992, 9007199254740993, 2.5, -0.0, 100, 99.99999999999999}
	type out struct {
		Checked    int      `json:"checked"`
		Violations []string `json:"violations"`
	}
	var o out
	fmtNum := func(f float64) string { return strconv.FormatFloat(f, 'g', -1, 64) }
	sel := func(q string, doc interface{}, members []interface{}) ([]int, bool) {
		r, err := jsonpath.Retrieve("$[?("+q+")]", doc)
		if err != nil {
			if errClass(err) == "mne" {
				return []int{}, true
			}
			return nil, false
		}
		idx := []int{}
		for _, v := range r {
			for i, m := range members {
				if snap(m) == snap(v) {
					idx = append(idx, i)
				}
			}
		}
		return idx, true
	}
	for it := 0; it < *n; it++ {
		k := 2 + rnd.Intn(5)
		seen := map[float64]bool{}
		var nums []float64
		for len(nums) < k {
			f := base[rnd.Intn(len(base))]
			if !seen[f] {
				seen[f] = true
				nums = append(nums, f)
			}
		}
		lit := fmtNum(base[rnd.Intn(len(base))])
		if *parity {
			// C10: numbers compare by value whatever their decoding -- integers beyond int64 and 2^53, tiny and huge
			// magnitudes, spelled as plain digits (no exponent) where they are integers
			parts := []string{}
			for _, f := range nums {
				if f == math.Trunc(f) && math.Abs(f) < 1e21 {
					parts = append(parts, strconv.FormatFloat(f, 'f', 0, 64))
				} else {
					parts = append(parts, fmtNum(f))
				}
			}
			text := "[" + strings.Join(parts, ",") + "]"
			d1, e1 := decodeDoc(text, false)
			d2, e2 := decodeDoc(text, true)
			if e1 != nil || e2 != nil {
				continue
			}
			for _, op := range []string{"==", "!=", "<", "<=", ">", ">="} {
				for _, q := range []string{"@" + op + lit, lit + op + "@", "@" + op + "$[0]", "$[0]" + op + "@"} {
					s1, ok1 := sel(q, d1, d1.([]interface{}))
					s2, ok2 := sel(q, d2, d2.([]interface{}))
					o.Checked++
					if !ok1 || !ok2 || !sameIdx(s1, s2) {
						o.Violations = append(o.Violations, fmt.Sprintf("on %s: [?(%s)] selects %v when numbers are float64 and %v when they are json.Number (%v %v)", text, q, s1, s2, ok1, ok2))
					}
				}
			}
			if len(o.Violations) > 5 {
				break
			}
			continue
		}
		for _, number := range []bool{false, true} {
			parts := []string{}
			for _, f := range nums {
				parts = append(parts, fmtNum(f))
			}
			doc, err := decodeDoc("["+strings.Join(parts, ",")+"]", number)
			if err != nil {
				continue
			}
			members := doc.([]interface{})
			if !number && it%3 == 0 {
				// float64 values no JSON text can spell (a document built in memory, or decoded from another format):
				// the relations between the selections hold for them as for any other member
				extra := []interface{}{math.NaN(), math.Inf(1), math.Inf(-1)}[it/3%3]
				members = append(members, extra)
				doc = members
			}
			n := len(members)
			for _, op := range []string{"<=", ">="} {
				strict := strings.TrimSuffix(op, "=")
				for _, form := range [][2]string{{"@", lit}, {lit, "@"}} {
					le, ok1 := sel(form[0]+op+form[1], doc, members)
					lt, ok2 := sel(form[0]+strict+form[1], doc, members)
					eq, ok3 := sel(form[0]+"=="+form[1], doc, members)
					ne, ok4 := sel(form[0]+"!="+form[1], doc, members)
					mi, ok5 := sel(form[1]+mirrorOp[op]+form[0], doc, members)
					o.Checked++
					if !(ok1 && ok2 && ok3 && ok4 && ok5) {
						o.Violations = append(o.Violations, fmt.Sprintf("a filter failed unexpectedly on %s with %s %s %s", snap(doc), form[0], op, form[1]))
						continue
					}
					if !sameIdx(le, setOp(lt, eq, n, "or")) {
						o.Violations = append(o.Violations, fmt.Sprintf("on %s: %s%s%s selects %v but %s selects %v and == selects %v", snap(doc), form[0], op, form[1], le, strict, lt, eq))
					}
					if !sameIdx(ne, setOp(eq, nil, n, "not")) {
						o.Violations = append(o.Violations, fmt.Sprintf("on %s: %s!=%s selects %v but == selects %v", snap(doc), form[0], form[1], ne, eq))
					}
					if !sameIdx(le, mi) {
						o.Violations = append(o.Violations, fmt.Sprintf("on %s: %s%s%s selects %v but the mirrored comparison selects %v", snap(doc), form[0], op, form[1], le, mi))
					}
				}
			}
		}
		if len(o.Violations) > 5 {
			break
		}
	}
	b, _ := json.Marshal(o)
	os.Stdout.Write(b)
}

// nsnap is snap with numbers printed by value, whatever their decoding
func nsnap(g interface{}) string {
	switch x := g.(type) {
	case float64, json.Number:
		f, _ := numOf(x)
		return fmt.Sprintf("#%v", f)
	case []interface{}:
		parts := make([]string, len(x))
		for i := range x {
			parts[i] = nsnap(x[i])
		}
		return "[" + strings.Join(parts, ",") + "]"
	case map[string]interface{}:
		keys := make([]string, 0, len(x))
		for k := range x {
			keys = append(keys, k)
		}
		sort.Strings(keys)
		parts := make([]string, len(keys))
		for i, k := range keys {
			parts[i] = fmt.Sprintf("%q:%s", k, nsnap(x[k]))
		}
		return "{" + strings.Join(parts, ",") + "}"
	}
	return snap(g)
}
