package main

// Family "parse": a path string with the outcome the specification (Peg over the grammar generated
// from jsonpath.peg + Actions) demands.  C02: Parse is total and returns a documented shape;
// C17: accepted iff the model accepts, and syntax errors point at the spot.

import (
	"encoding/json"
	"fmt"
	"regexp"
	"strconv"
	"strings"
	"time"
	"unicode/utf8"

	"github.com/AsaiYusuke/jsonpath"
)

type parseOut struct {
	Cls  string `json:"cls"`
	Pos  int    `json:"pos"`
	Why  string `json:"why"`
	Text []int  `json:"text"`
}
type parseAsm struct {
	Kind string `json:"kind"`
	Text []int  `json:"text"`
	Ok   bool   `json:"ok"`
}
type parseCase struct {
	Fam string  `json:"fam"`
	S   []int   `json:"s"`
	Raw *string `json:"raw,omitempty"` // direction B: the exact Go string (may be invalid UTF-8), base64-free: JSON-escaped bytes are not possible, so hex
	Cfg struct {
		FF [][]int `json:"ff"`
		AF [][]int `json:"af"`
	} `json:"cfg"`
	Out parseOut   `json:"out"`
	Asm []parseAsm `json:"asm"`
}

var reSyntax = regexp.MustCompile(`(?s)^invalid syntax \(position=(\d+), reason=(.*?), near=(.*)\)$`)

func cfgFromNames(ff, af [][]int, accessor bool) jsonpath.Config {
	cfg := jsonpath.Config{}
	for _, n := range ff {
		cfg.SetFilterFunction(cps(n), func(v interface{}) (interface{}, error) { return v, nil })
	}
	for _, n := range af {
		cfg.SetAggregateFunction(cps(n), func(v []interface{}) (interface{}, error) { return float64(len(v)), nil })
	}
	if accessor {
		cfg.SetAccessorMode()
	}
	return cfg
}

// observed outcome of Parse in the vocabulary of the model
type observed struct {
	Cls   string
	Pos   int
	Why   string
	Near  string
	Text  string
	Shape string // "" when the documented shape holds
	Msg   string
}

// a Parse call on a path of at most 256 characters normally takes well under a millisecond;
// "bounded time" (C02) is checked as: no single call takes longer than this
const parseTimeBound = 3 * time.Second

func observeParse(text string, cfg *jsonpath.Config) observed {
	t0 := time.Now()
	pr := safeParse(text, cfg)
	took := time.Since(t0)
	var o observed
	switch {
	case took > parseTimeBound:
		o.Shape = fmt.Sprintf("Parse took %v for a path of %d characters (bound %v)", took.Round(time.Millisecond), len([]rune(text)), parseTimeBound)
		o.Cls = "slow"
		return o
	case pr.Panic != nil:
		o.Shape = fmt.Sprintf("panic: %v", pr.Panic)
		o.Cls = "panic"
		return o
	case pr.F == nil && pr.Err == nil:
		o.Shape = "returned (nil, nil)"
		o.Cls = "nilnil"
		return o
	case pr.F != nil && pr.Err != nil:
		o.Shape = "returned a function together with an error: " + pr.Err.Error()
		o.Cls = "both"
		return o
	case pr.Err == nil:
		o.Cls = "ok"
		return o
	}
	o.Cls = parseErrClass(pr.Err)
	o.Msg = pr.Err.Error()
	if strings.HasPrefix(o.Cls, "other") {
		o.Shape = "error of undocumented type: " + o.Msg
		return o
	}
	switch o.Cls {
	case "syntax":
		m := reSyntax.FindStringSubmatch(o.Msg)
		if m == nil {
			o.Shape = "unparsable ErrorInvalidSyntax text: " + o.Msg
			return o
		}
		o.Pos, _ = strconv.Atoi(m[1])
		o.Why, o.Near = m[2], m[3]
	case "arg":
		o.Text = strings.TrimPrefix(o.Msg, "invalid argument (argument=")
	case "fnf":
		o.Text = strings.TrimSuffix(strings.TrimPrefix(o.Msg, "function not found (function="), ")")
	case "nsup":
		o.Text = strings.TrimSuffix(strings.TrimPrefix(o.Msg, "not supported (feature=script, path="), ")")
	}
	return o
}

// restFrom returns the rest of s from its pos-th character (invalid bytes count as one character each,
// as in []rune(s) and in the generated parser)
func restFrom(s string, pos int) (string, bool) {
	n := 0
	for i := range s {
		if n == pos {
			return s[i:], true
		}
		n++
	}
	if n == pos {
		return "", true
	}
	return "", false
}

func checkAssumption(a parseAsm) (bool, string) {
	t := cps(a.Text)
	switch a.Kind {
	case "int":
		_, err := strconv.Atoi(t)
		return (err == nil) == a.Ok, fmt.Sprintf("strconv.Atoi(%q) err=%v, model says ok=%v", t, err, a.Ok)
	case "float":
		_, err := strconv.ParseFloat(t, 64)
		return (err == nil) == a.Ok, fmt.Sprintf("strconv.ParseFloat(%q) err=%v, model says ok=%v", t, err, a.Ok)
	case "regex":
		_, err := regexp.Compile(t)
		return (err == nil) == a.Ok, fmt.Sprintf("regexp.Compile(%q) err=%v, model says ok=%v", t, err, a.Ok)
	}
	return false, "unknown assumption kind " + a.Kind
}

func init() {
	families["lawfail"] = func(w *worker, inner []byte) {
		var c struct {
			Law string `json:"law"`
			S   []int  `json:"s"`
		}
		json.Unmarshal(inner, &c)
		w.count("lawfail:"+c.Law, 1)
		if len(w.res.Samples) < 3 {
			w.res.Samples = append(w.res.Samples, "model law "+c.Law+" failed for "+cps(c.S))
		}
	}
	families["parse"] = func(w *worker, inner []byte) {
		var c parseCase
		if err := json.Unmarshal(inner, &c); err != nil {
			w.infra("bad parse case: " + err.Error())
			return
		}
		w.runParse(&c, inner)
	}
}

func (w *worker) runParse(c *parseCase, raw []byte) {
	P := w.props
	text := cps(c.S)
	w.count("cases", 1)
	for _, a := range c.Asm {
		if ok, msg := checkAssumption(a); !ok {
			w.infra("model assumption wrong (extend the model or shrink the alphabet): " + msg)
			return
		}
	}
	w.count("class:"+c.Out.Cls, 1)
	if c.Out.Cls == "syntax" {
		w.count("reason:"+c.Out.Why, 1)
	}
	if !utf8.ValidString(text) {
		w.count("invalid-utf8", 1)
	}
	cfgs := []struct {
		name string
		cfg  *jsonpath.Config
	}{}
	full := cfgFromNames(c.Cfg.FF, c.Cfg.AF, false)
	acc := cfgFromNames(c.Cfg.FF, c.Cfg.AF, true)
	cfgs = append(cfgs, struct {
		name string
		cfg  *jsonpath.Config
	}{"functions", &full}, struct {
		name string
		cfg  *jsonpath.Config
	}{"functions+accessor", &acc})
	for _, cf := range cfgs {
		o := observeParse(text, cf.cfg)
		w.distinct(o.Cls + "|" + o.Why + "|" + strconv.Itoa(len(c.S)))
		if P["C02"] {
			w.count("C02:parses", 1)
			if o.Shape != "" {
				w.viol("C02", "undocumented-outcome", text, "config="+cf.name, o.Shape, o.Cls, raw)
				continue
			}
		}
		if o.Shape != "" {
			if P["C17"] {
				w.viol("C17", "undocumented-outcome", text, "config="+cf.name, o.Shape, o.Cls, raw)
			}
			continue
		}
		if P["C18"] && c.Out.Cls == "ok" && o.Cls != "ok" {
			// a sentence of Render (a spelling the grammar declares insignificant) must parse
			w.count("C18:sentences", 1)
			w.viol("C18", "spelling-rejected", text, "config="+cf.name, "a spelling variant of a valid path is rejected: "+o.Msg, "sentence", raw)
			continue
		}
		if !P["C17"] {
			continue
		}
		w.count("C17:compared", 1)
		want := c.Out
		if o.Cls != want.Cls {
			kind := "class-differs"
			if (o.Cls == "ok") != (want.Cls == "ok") {
				kind = "acceptance-differs"
			}
			w.viol("C17", kind, text, "config="+cf.name, fmt.Sprintf("the grammar+actions give %s (pos=%d why=%q text=%q), Parse gives %s %q", want.Cls, want.Pos, want.Why, cps(want.Text), o.Cls, o.Msg), want.Cls+"->"+o.Cls, raw)
			continue
		}
		switch o.Cls {
		case "syntax":
			rest, inside := restFrom(text, o.Pos)
			switch {
			case !inside:
				w.viol("C17", "position-outside-path", text, "config="+cf.name, o.Msg, "syntax", raw)
			case o.Near != rest:
				w.viol("C17", "near-is-not-the-rest", text, "config="+cf.name, fmt.Sprintf("position=%d: near=%q but the rest of the path from that character is %q", o.Pos, o.Near, rest), "syntax", raw)
			case o.Pos != want.Pos:
				// 5.7(e): the byte offset of that character is tolerated as well
				if bo := len(text) - len(rest); !(o.Pos == want.Pos || bo == want.Pos) {
					w.viol("C17", "position-differs", text, "config="+cf.name, fmt.Sprintf("grammar: %d (%s), Parse: %s", want.Pos, want.Why, o.Msg), "syntax", raw)
				}
			case o.Why != want.Why:
				w.viol("C17", "reason-differs", text, "config="+cf.name, fmt.Sprintf("grammar: %q, Parse: %s", want.Why, o.Msg), "syntax", raw)
			}
		case "arg":
			if !strings.HasPrefix(o.Text, cps(want.Text)+", error=") {
				w.viol("C17", "argument-differs", text, "config="+cf.name, fmt.Sprintf("grammar: argument %q, Parse: %s", cps(want.Text), o.Msg), "arg", raw)
			}
		case "fnf", "nsup":
			if o.Text != cps(want.Text) {
				w.viol("C17", "text-differs", text, "config="+cf.name, fmt.Sprintf("grammar: %q, Parse: %s", cps(want.Text), o.Msg), o.Cls, raw)
			}
		}
	}
	// without any configuration: a path that mentions a function must be FunctionNotFound (or fail earlier)
	o := observeParse(text, nil)
	if P["C02"] {
		w.count("C02:parses", 1)
		if o.Shape != "" {
			w.viol("C02", "undocumented-outcome", text, "config=none", o.Shape, o.Cls, raw)
		}
	}
}
