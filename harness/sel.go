package main

// Family "sel": one (document, path) case enumerated by TLC with the response the
// specification demands.  Which oracles run is chosen by the property set of the check.

import (
	"encoding/json"
	"fmt"
	"reflect"
	"sort"
	"strings"

	"github.com/AsaiYusuke/jsonpath"
)

type spelling struct {
	Sp     map[string]interface{} `json:"sp"`
	Text   []int                  `json:"text"`
	Stexts [][]int                `json:"stexts"`
}

type expVal struct {
	V   MV      `json:"v"`
	Loc []LocEl `json:"loc"`
	Set bool    `json:"set"`
}
type expErr struct {
	I     int           `json:"i"`
	E     string        `json:"e"`
	Exp   string        `json:"exp"`
	Found []interface{} `json:"found"`
}
type expLog struct {
	Fn  []int `json:"fn"`
	Arg MV    `json:"arg"`
}
type expRes struct {
	Ok   bool     `json:"ok"`
	Vals []expVal `json:"vals"`
	Errs []expErr `json:"errs"`
	Log  []expLog `json:"log"`
}

type selCase struct {
	Fam   string     `json:"fam"`
	Doc   MV         `json:"doc"`
	Path  Path       `json:"path"`
	Texts []spelling `json:"texts"`
	Det   bool       `json:"det"`
	FDet  bool       `json:"fdet"`
	Res   expRes     `json:"res"`
	// related-selection families add fields; see filter.go
	Extra json.RawMessage `json:"extra,omitempty"`
}

var foundGo = map[string]string{"null": "null", "bool": "bool", "str": "string", "arr": "[]interface {}", "obj": "map[string]interface {}"}

func foundName(found []interface{}, m Mode) string {
	if len(found) == 0 {
		return ""
	}
	tag := found[0].(string)
	switch tag {
	case "num":
		if m.Number {
			return "json.Number"
		}
		return "float64"
	case "opq":
		return opaqueTypeName(int(found[1].(float64)))
	}
	return foundGo[tag]
}

// candidate error strings for a failing case under one spelling
func candidates(c *selCase, sp *spelling, m Mode) []string {
	var out []string
	nsteps := len(c.Path.Steps)
	for _, e := range c.Res.Errs {
		text := cps(sp.Stexts[e.I-1])
		switch e.E {
		case "mne":
			out = append(out, fmt.Sprintf("member did not exist (path=%s)", text))
			if e.I <= nsteps && c.Path.Steps[e.I-1].K == "multi" {
				// 5.7(c): a multi selector containing `*` may name its `*` member
				for _, id := range c.Path.Steps[e.I-1].Ids {
					if id.K == "wild" {
						out = append(out, "member did not exist (path=*)")
						break
					}
				}
			}
		case "tu":
			out = append(out, fmt.Sprintf("type unmatched (expected=%s, found=%s, path=%s)", e.Exp, foundName(e.Found, m), text))
			if e.I <= nsteps && c.Path.Steps[e.I-1].K == "multi" && e.Exp == "object" {
				allw := true
				for _, id := range c.Path.Steps[e.I-1].Ids {
					allw = allw && id.K == "wild"
				}
				if allw { // 5.7(c): [*,*] also navigates arrays
					out = append(out, fmt.Sprintf("type unmatched (expected=%s, found=%s, path=%s)", "object/array", foundName(e.Found, m), text))
				}
			}
		case "ff":
			fn := c.Path.Funcs[e.I-1-nsteps]
			out = append(out, fmt.Sprintf("function failed (function=%s, error=boom-%s)", text, cps(fn.N)))
		}
	}
	sort.Strings(out)
	return out
}

func inList(s string, l []string) bool {
	for _, x := range l {
		if x == s {
			return true
		}
	}
	return false
}

func valsMatch(exp []expVal, got []interface{}) bool {
	if len(exp) != len(got) {
		return false
	}
	for i := range exp {
		if !exp[i].V.matches(got[i]) {
			return false
		}
	}
	return true
}

func expString(r expRes) string {
	if !r.Ok {
		b, _ := json.Marshal(r.Errs)
		return "FAIL" + string(b)
	}
	parts := []string{}
	for _, v := range r.Vals {
		parts = append(parts, snap(v.V.ToGo(Mode{})))
	}
	return "[" + strings.Join(parts, ",") + "]"
}

// putLoc returns doc with location loc replaced by v (on the Go value, building new containers
// along the way so the original is untouched)
func putLoc(doc interface{}, loc []LocEl, v interface{}) interface{} {
	if len(loc) == 0 {
		return v
	}
	if loc[0].K != nil {
		m := doc.(map[string]interface{})
		out := make(map[string]interface{}, len(m))
		for k, x := range m {
			out[k] = x
		}
		k := cps(*loc[0].K)
		out[k] = putLoc(m[k], loc[1:], v)
		return out
	}
	a := doc.([]interface{})
	out := make([]interface{}, len(a))
	copy(out, a)
	out[*loc[0].I] = putLoc(a[*loc[0].I], loc[1:], v)
	return out
}

func atLoc(doc interface{}, loc []LocEl) (interface{}, bool) {
	for _, l := range loc {
		if l.K != nil {
			m, ok := doc.(map[string]interface{})
			if !ok {
				return nil, false
			}
			doc, ok = m[cps(*l.K)]
			if !ok {
				return nil, false
			}
		} else {
			a, ok := doc.([]interface{})
			if !ok || *l.I >= len(a) {
				return nil, false
			}
			doc = a[*l.I]
		}
	}
	return doc, true
}

func locString(loc []LocEl) string {
	s := "$"
	for _, l := range loc {
		if l.K != nil {
			s += "[" + quoteKey(*l.K, '\'') + "]"
		} else {
			s += fmt.Sprintf("[%d]", *l.I)
		}
	}
	return s
}

func (w *worker) runSel(c *selCase, raw []byte) {
	P := w.props
	canon := cps(c.Texts[0].Text)
	kinds := stepKinds(c.Path.Steps)
	if len(c.Path.Funcs) > 0 {
		fk := []string{}
		for _, f := range c.Path.Funcs {
			fk = append(fk, f.K)
		}
		kinds += " | " + strings.Join(fk, " ")
	}
	w.count("cases", 1)
	w.count("kind:"+kinds, 1)
	curVariant = w.n % 2 // alternate the implementations behind the function names from case to case
	defer func() { curVariant = 0 }()
	if !c.Det {
		w.count("undetermined(5.7a)", 1)
	}
	// the Go-side canonical renderer must be the specification's (it is used for sub-paths)
	if c.Path.Text() != canon {
		w.infra(fmt.Sprintf("renderer mismatch: go=%q tlc=%q", c.Path.Text(), canon))
		return
	}
	modes := []Mode{{}, {Number: true}}
	if P["C07"] {
		modes = []Mode{{}, {MapOrder: 1}, {MapOrder: 2}, {MapOrder: 3, Number: true}}
	}
	if P["C07"] {
		w.checkOrder(c, canon, kinds, raw)
		return
	}
	if (P["C01"] || P["C08"] || P["C03"]) && c.Doc.HasSharing() {
		// the same JSON value assembled from shared parts (equal sub-containers are one Go object)
		modes = append(modes, Mode{Share: true})
		w.count("documents-with-shared-parts", 1)
	}
	var canonResp []resp
	for si := range c.Texts {
		sp := &c.Texts[si]
		text := cps(sp.Text)
		if si > 0 && !(P["C18"] || w.opts["allspell"] == "1") {
			break
		}
		for mi, m := range modes {
			doc := c.Doc.ToGo(m)
			before := snap(doc)
			log := &callLog{}
			cfg := modelConfig(log, false)
			if P["C18"] && si > 0 && w.n%2 == 0 {
				// every other case: the other spellings are parsed right after Parse calls that FAILED half-way (inside a
				// filter, inside a bracket, at a function) -- a spelling means the same whatever was parsed before
				for _, bad := range []string{"$.x[?(@.a.nofunc())]", "$.y['a',", "$.z[?(@.a == )]"} {
					safeParse(bad, &cfg)
				}
				w.count("C18:spellings-parsed-after-failed-parses", 1)
			}
			pr := safeParse(text, &cfg)
			if pr.Panic != nil || pr.Err != nil || pr.F == nil {
				w.viol(primary(P, "C01", "C18"), "parse-failed", text, before, fmt.Sprintf("Parse of a rendered sentence: err=%v panic=%v", pr.Err, pr.Panic), kinds, raw)
				return
			}
			if mi == 1 {
				// in this pass the parsed function has a past: it was used on ANOTHER document first
				safeCall(pr.F, c.Doc.variant(w.n%2).ToGo(m))
				log.calls = nil
				w.count("parsed-function-used-before-on-another-document", 1)
			}
			probed := ""
			if P["C04"] {
				// the document of the previous call of this process must still be what it was
				if w.lastDoc != nil && snap(w.lastDoc) != w.lastSnap {
					w.viol("C04", "earlier-document-modified-by-a-later-call", text, w.lastSnap, "the document of the previous retrieval reads "+snap(w.lastDoc)+" now (previous path: "+w.lastText+")", kinds, raw)
				}
				docProbe = func() {
					if s := snap(doc); s != before && probed == "" {
						probed = s
					}
				}
			}
			r := safeCall(pr.F, doc)
			docProbe = nil
			after := snap(doc)
			if P["C04"] {
				// ... and this call must not have touched the previous call's document either
				if w.lastDoc != nil && snap(w.lastDoc) != w.lastSnap {
					w.viol("C04", "earlier-document-modified-by-a-later-call", text, w.lastSnap, "this retrieval changed the document of the PREVIOUS retrieval ("+w.lastText+") to "+snap(w.lastDoc), kinds, raw)
				}
				w.lastDoc, w.lastSnap, w.lastText = doc, after, text
				if probed != "" {
					w.viol("C04", "document-modified-during-the-call", text, before, "a user function called during the retrieval saw the document as "+probed, kinds, raw)
				}
			}
			nontrivial := len(r.Vals) > 1 || (r.Err != nil)
			if nontrivial && si == 0 && mi == 0 {
				w.distinct(kinds + "|" + r.String())
			}
			// ---- C03 shape
			if P["C03"] {
				w.count("C03:evaluations", 1)
				switch {
				case r.Panic != nil:
					w.viol("C03", "panic", text, before, fmt.Sprintf("panic: %v", r.Panic), kinds, raw)
				case r.Err == nil && len(r.Vals) == 0:
					w.viol("C03", "empty-success", text, before, "returned (empty, nil)", kinds, raw)
				case r.Err != nil && r.Vals != nil:
					w.viol("C03", "values-and-error", text, before, r.String(), kinds, raw)
				case r.Err != nil && strings.HasPrefix(errClass(r.Err), "other"):
					w.viol("C03", "undocumented-error-type", text, before, r.String(), kinds, raw)
				case r.Err == nil && c.Det && !c.Res.Ok:
					w.viol("C03", "no-match-reported-as-success", text, before, fmt.Sprintf("the path selects nothing on this document, yet the call returned %s", r), kinds, raw)
				case r.Err != nil && errClass(r.Err) == "ff":
					failed := false
					for _, cl := range log.calls {
						if cl.Fn == "ferr" || cl.Fn == "gerr" || cl.Fn == "fodd" {
							failed = true
						}
					}
					if !failed {
						w.viol("C03", "function-failed-without-failure", text, before, r.String(), kinds, raw)
					}
				}
			} else if r.Panic != nil {
				w.viol(primary(P, "C01"), "panic", text, before, fmt.Sprintf("panic: %v", r.Panic), kinds, raw)
				return
			}
			// ---- C04 snapshot
			if P["C04"] {
				w.count("C04:snapshots", 1)
				if after != before {
					w.viol("C04", "document-modified", text, before, "after the call: "+after, kinds, raw)
				}
			} else if after != before && !P["C13"] {
				// the document was damaged: later oracles would blame the wrong property
				w.count("skipped:doc-modified", 1)
				return
			}
			if r.Panic != nil {
				continue
			}
			// ---- C01 exact response
			if P["C01"] && c.Det {
				w.count("C01:compared", 1)
				if c.Res.Ok {
					if r.Err != nil {
						w.viol("C01", "expected-values-got-error", text, before, fmt.Sprintf("want %s got %s", expString(c.Res), r), kinds, raw)
					} else if !valsMatch(c.Res.Vals, r.Vals) {
						w.viol("C01", "values-differ", text, before, fmt.Sprintf("want %s got %s", expString(c.Res), r), kinds, raw)
					}
				} else if r.Err == nil {
					w.viol("C01", "expected-failure-got-values", text, before, fmt.Sprintf("want %s got %s", expString(c.Res), r), kinds, raw)
				}
			}
			// ---- C15 error details
			if P["C15"] && c.Det && !c.Res.Ok && r.Err != nil {
				w.count("C15:errors-compared", 1)
				cands := candidates(c, sp, m)
				if !inList(r.Err.Error(), cands) {
					kind := "error-not-admissible"
					if !StepsVGgo(c.Path.Steps) {
						kind = "single-valued-error-differs"
					}
					w.viol("C15", kind, text, before, fmt.Sprintf("got %q, admissible %q", r.Err.Error(), cands), kinds, raw)
				} else {
					w.count("C15:class:"+errClass(r.Err), 1)
				}
			}
			// ---- C14 call logs (top-level trailing functions)
			if P["C14"] && c.Det {
				w.checkLog(c, log, text, before, kinds, raw)
				if si == 0 {
					// functions must see the same plain values when the results are wrapped in accessors
					alog := &callLog{}
					acfg := modelConfig(alog, true)
					if apr := safeParse(text, &acfg); apr.Err == nil && apr.Panic == nil {
						safeCall(apr.F, c.Doc.ToGo(m))
						w.checkLog(c, alog, text+" (accessor mode)", before, kinds, raw)
					}
				}
			}
			// ---- C18 spellings agree with the canonical spelling
			if P["C18"] {
				if si == 0 {
					canonResp = append(canonResp, r)
				} else {
					w.count("C18:variants", 1)
					cr := canonResp[mi]
					same := (cr.Err == nil) == (r.Err == nil)
					if same && r.Err == nil {
						same = reflect.DeepEqual(cr.Vals, r.Vals)
					} else if same {
						// same type, same step (index in the step list)
						same = errClass(cr.Err) == errClass(r.Err) && sameStep(errSteps(cr.Err, &c.Texts[0], c.Path.Steps), errSteps(r.Err, sp, c.Path.Steps))
					}
					if !same {
						w.viol("C18", "spelling-changes-behaviour", text, before, fmt.Sprintf("canonical %q gives %s, this spelling gives %s", canon, cr, r), kinds, raw)
					}
				}
			}
			if si > 0 && !(P["C12"] && w.opts["allspell"] == "1") {
				continue
			}
			// ---- C12 accessor mode parity
			if P["C12"] {
				w.checkAccessorParity(c, text, m, r, log, kinds, raw)
			}
			if si > 0 {
				continue
			}
			// ---- C13 Set / Get
			if P["C13"] && c.Det && mi == 0 {
				w.checkAccessors(c, text, m, kinds, raw)
			}
			// ---- C08 composition (oracle-free)
			if P["C08"] && len(c.Path.Funcs) == 0 && (mi == 0 || m.Share) {
				w.checkCompose(c, m, kinds, raw)
			} else if P["C08"] && allFilterFuncs(c.Path.Funcs) && mi == 0 {
				// a filter function is a step like any other: P.f() is $.f() applied to every value P selects
				w.checkComposeFuncs(c, m, kinds, raw)
			}
		}
	}
}

func primary(P map[string]bool, order ...string) string {
	for _, p := range order {
		if P[p] {
			return p
		}
	}
	// fall back to any property of this check
	keys := []string{}
	for k := range P {
		keys = append(keys, k)
	}
	sort.Strings(keys)
	return keys[0]
}

// errSteps finds which steps/functions the error may name (indices into stexts); a text can occur
// at several steps (`$.a.a`), so the answer is a set
func errSteps(err error, sp *spelling, steps []Step) map[int]bool {
	msg := err.Error()
	out := map[int]bool{}
	if strings.HasSuffix(msg, "(path=*)") {
		// 5.7(c): the `*` member of a multi selector reports itself as `*`
		for i, st := range steps {
			if st.K == "multi" {
				for _, id := range st.Ids {
					if id.K == "wild" {
						out[i] = true
					}
				}
			}
		}
	}
	for i, t := range sp.Stexts {
		s := cps(t)
		if strings.HasSuffix(msg, "path="+s+")") || strings.Contains(msg, "function="+s+",") {
			out[i] = true
		}
	}
	return out
}

func sameStep(a, b map[int]bool) bool {
	for i := range a {
		if b[i] {
			return true
		}
	}
	return len(a) == 0 && len(b) == 0
}

func StepsVGgo(ss []Step) bool {
	for _, s := range ss {
		switch s.K {
		case "wild", "multi", "rec", "filter":
			return true
		case "union":
			if len(s.Subs) > 1 || s.Subs[0].K != "idx" {
				return true
			}
		}
	}
	return false
}

func (w *worker) checkLog(c *selCase, log *callLog, text, before, kinds string, raw []byte) {
	if w.logProp == "" {
		w.count("C14:logs-compared", 1)
	} else {
		w.count(w.logProp+":logs-compared", 1)
	}
	exp := map[string][]MV{}
	for _, l := range c.Res.Log {
		exp[cps(l.Fn)] = append(exp[cps(l.Fn)], l.Arg)
	}
	got := log.byName()
	names := map[string]bool{}
	for k := range exp {
		names[k] = true
	}
	for k := range got {
		names[k] = true
	}
	for name := range names {
		if (name == "fid" || name == "gcnt" || name == "fprobe") && !c.FDet {
			continue // functions of filter operands under && / || or in nested filters: left open (5.7d)
		}
		e, g := exp[name], got[name]
		ok := len(e) == len(g)
		if ok {
			for i := range e {
				if g[i].Acc || !e[i].matches(g[i].Arg) {
					ok = false
				}
			}
		}
		if !ok {
			gs := []string{}
			for _, x := range g {
				if x.Acc {
					gs = append(gs, "ACCESSOR")
				} else {
					gs = append(gs, snap(x.Arg))
				}
			}
			es := []string{}
			for _, x := range e {
				es = append(es, snap(x.ToGo(Mode{})))
			}
			lp := "C14"
			if w.logProp != "" {
				lp = w.logProp
			}
			w.viol(lp, "call-log-differs", text, before, fmt.Sprintf("function %s: want calls %v got %v", name, es, gs), kinds, raw)
			return
		}
		w.count("C14:calls", len(g))
	}
}

func (w *worker) checkAccessorParity(c *selCase, text string, m Mode, plain resp, plainLog *callLog, kinds string, raw []byte) {
	w.count("C12:pairs", 1)
	doc := c.Doc.ToGo(m)
	before := snap(doc)
	log := &callLog{}
	cfg := modelConfig(log, true)
	pr := safeParse(text, &cfg)
	if pr.Panic != nil || pr.Err != nil {
		w.viol("C12", "accessor-parse-differs", text, before, fmt.Sprintf("plain parse ok, accessor-mode parse: err=%v panic=%v", pr.Err, pr.Panic), kinds, raw)
		return
	}
	r := safeCall(pr.F, doc)
	if r.Panic != nil {
		w.viol("C12", "accessor-panic", text, before, fmt.Sprintf("%v", r.Panic), kinds, raw)
		return
	}
	if (plain.Err == nil) != (r.Err == nil) || (plain.Err != nil && plain.Err.Error() != r.Err.Error()) {
		w.viol("C12", "accessor-error-differs", text, before, fmt.Sprintf("plain %s accessor %s", plain, r), kinds, raw)
		return
	}
	if plain.Err == nil {
		if len(plain.Vals) != len(r.Vals) {
			w.viol("C12", "accessor-count-differs", text, before, fmt.Sprintf("plain %s accessor %s", plain, r), kinds, raw)
			return
		}
		for i := range r.Vals {
			a, ok := r.Vals[i].(jsonpath.Accessor)
			if !ok {
				w.viol("C12", "not-an-accessor", text, before, fmt.Sprintf("result %d is %T", i, r.Vals[i]), kinds, raw)
				return
			}
			if a.Get == nil || snap(a.Get()) != snap(plain.Vals[i]) {
				w.viol("C12", "accessor-get-differs", text, before, fmt.Sprintf("result %d: plain %s accessor %s", i, plain, r), kinds, raw)
				return
			}
		}
	}
	// functions and filters saw the same plain values
	pl, al := plainLog.calls, log.calls
	same := len(pl) == len(al)
	if same {
		for i := range pl {
			if al[i].Acc || pl[i].Fn != al[i].Fn || snap(pl[i].Arg) != snap(al[i].Arg) {
				same = false
			}
		}
	}
	if !same {
		w.viol("C12", "functions-see-different-values", text, before, fmt.Sprintf("plain log %s accessor log %s", logString(pl), logString(al)), kinds, raw)
	}
	if snap(doc) != before {
		w.viol(primary(w.props, "C04", "C12"), "document-modified", text, before, "accessor mode without Set: "+snap(doc), kinds, raw)
	}
}

func logString(l []callRec) string {
	parts := []string{}
	for _, c := range l {
		if c.Acc {
			parts = append(parts, c.Fn+"(ACCESSOR)")
		} else {
			parts = append(parts, c.Fn+"("+snap(c.Arg)+")")
		}
	}
	return "[" + strings.Join(parts, " ") + "]"
}

// C13: for every result index, Set a sentinel on a fresh copy; exactly the predicted location changes
func (w *worker) checkAccessors(c *selCase, text string, m Mode, kinds string, raw []byte) {
	if !c.Res.Ok {
		return
	}
	cfg := modelConfig(nil, true)
	pr := safeParse(text, &cfg)
	if pr.Err != nil || pr.Panic != nil {
		return // C12's business
	}
	for i := range c.Res.Vals {
		w.count("C13:accessors", 1)
		doc := c.Doc.ToGo(m)
		before := snap(doc)
		r := safeCall(pr.F, doc)
		if r.Panic != nil || r.Err != nil {
			return // C12/C01's business
		}
		if len(r.Vals) != len(c.Res.Vals) {
			w.viol("C13", "accessors-do-not-correspond-to-the-selected-locations", text, before, fmt.Sprintf("%d accessors returned, the path selects %d locations: accessor i cannot address location i", len(r.Vals), len(c.Res.Vals)), kinds, raw)
			return
		}
		a, ok := r.Vals[i].(jsonpath.Accessor)
		if !ok {
			return
		}
		ev := c.Res.Vals[i]
		if !ev.Set {
			w.count("C13:unsettable", 1)
			if a.Set != nil {
				w.viol("C13", "set-offered-for-non-location", text, before, fmt.Sprintf("result %d is not a location of the document but Set != nil", i), kinds, raw)
			}
			continue
		}
		if a.Set == nil {
			w.viol("C13", "set-missing", text, before, fmt.Sprintf("result %d is the location %s but Set == nil", i, locString(ev.Loc)), kinds, raw)
			continue
		}
		if !ev.V.matches(a.Get()) {
			w.viol("C13", "get-differs", text, before, fmt.Sprintf("result %d: Get()=%s want %s", i, snap(a.Get()), snap(ev.V.ToGo(m))), kinds, raw)
			continue
		}
		sentinel := fmt.Sprintf("SENTINEL-%d", i)
		var setPanic interface{}
		func() {
			defer func() { setPanic = recover() }()
			a.Set(sentinel)
		}()
		if setPanic != nil {
			w.viol("C13", "set-panics", text, before, fmt.Sprint(setPanic), kinds, raw)
			continue
		}
		want := snap(putLoc(c.Doc.ToGo(m), ev.Loc, sentinel))
		if got := snap(doc); got != want {
			w.viol("C13", "set-wrote-elsewhere", text, before, fmt.Sprintf("Set through result %d (%s): document is %s, want %s", i, locString(ev.Loc), got, want), kinds, raw)
			continue
		}
		if g := a.Get(); g != sentinel {
			w.viol("C13", "get-after-set", text, before, fmt.Sprintf("result %d: Get() after Set = %s", i, snap(g)), kinds, raw)
			continue
		}
		// Set with a CONTAINER of the kind the location holds now (a caller replacing a sub-document)
		if cur, okc := atLoc(c.Doc.ToGo(m), ev.Loc); okc {
			var cont interface{}
			switch cur.(type) {
			case []interface{}:
				cont = []interface{}{"SENTINEL-LIST"}
			case map[string]interface{}:
				cont = map[string]interface{}{"SENTINEL": 1.0}
			}
			if cont != nil {
				doc2 := c.Doc.ToGo(m)
				if r2 := safeCall(pr.F, doc2); r2.Panic == nil && r2.Err == nil && len(r2.Vals) == len(c.Res.Vals) {
					if a2, ok2 := r2.Vals[i].(jsonpath.Accessor); ok2 && a2.Set != nil {
						var p2 interface{}
						func() {
							defer func() { p2 = recover() }()
							a2.Set(cont)
						}()
						w.count("C13:container-sets", 1)
						if p2 != nil {
							w.viol("C13", "set-panics", text, before, fmt.Sprintf("Set(%s) through result %d (%s): %v", snap(cont), i, locString(ev.Loc), p2), kinds, raw)
							continue
						}
						if got, want2 := snap(doc2), snap(putLoc(c.Doc.ToGo(m), ev.Loc, cont)); got != want2 {
							w.viol("C13", "set-wrote-elsewhere", text, before, fmt.Sprintf("Set(%s) through result %d (%s): document is %s, want %s", snap(cont), i, locString(ev.Loc), got, want2), kinds, raw)
							continue
						}
					}
				}
			}
		}
		// Get is live: update the map entry / array element directly
		parent, _ := atLoc(doc, ev.Loc[:len(ev.Loc)-1])
		last := ev.Loc[len(ev.Loc)-1]
		switch pc := parent.(type) {
		case map[string]interface{}:
			pc[cps(*last.K)] = "DIRECT"
		case []interface{}:
			pc[*last.I] = "DIRECT"
		}
		if g := a.Get(); g != "DIRECT" {
			w.viol("C13", "get-not-live", text, before, fmt.Sprintf("result %d (%s): Get() after a direct update = %s", i, locString(ev.Loc), snap(g)), kinds, raw)
		}
		// the other accessors of the same result still read their own locations
		for j := range r.Vals {
			if j == i {
				continue
			}
			b, ok := r.Vals[j].(jsonpath.Accessor)
			if !ok || !c.Res.Vals[j].Set {
				continue
			}
			wantJ, okJ := atLoc(doc, c.Res.Vals[j].Loc)
			if okJ && snap(b.Get()) != snap(wantJ) {
				w.viol("C13", "other-accessor-disturbed", text, before, fmt.Sprintf("after Set via %d, accessor %d (%s) reads %s, document holds %s", i, j, locString(c.Res.Vals[j].Loc), snap(b.Get()), snap(wantJ)), kinds, raw)
				break
			}
		}
	}
}

// C08: P.Q == concat over P's results of $.Q ; three real retrievals related, no expected values
func (w *worker) checkCompose(c *selCase, m Mode, kinds string, raw []byte) {
	steps := c.Path.Steps
	cfg := modelConfig(nil, false) // filters may use the model's functions
	retrieve := func(text string, doc interface{}) resp {
		pr := safeParse(text, &cfg)
		if pr.Err != nil || pr.Panic != nil {
			return resp{Panic: fmt.Sprintf("parse failed: %v %v", pr.Err, pr.Panic)}
		}
		return safeCall(pr.F, doc)
	}
	doc := c.Doc.ToGo(m)
	before := snap(doc)
	var whole *resp
	for k := 1; k < len(steps); k++ {
		if steps[k-1].K == "rec" {
			continue
		}
		Q := steps[k:]
		if stepsUseRoot(Q) {
			w.count("C08:skipped-root-operand", 1)
			continue
		}
		if whole == nil {
			r := retrieve("$"+stepsText(steps), doc)
			whole = &r
		}
		w.count("C08:splits", 1)
		ptext, qtext := "$"+stepsText(steps[:k]), "$"+stepsText(Q)
		first := retrieve(ptext, doc)
		var concat []interface{}
		if first.Panic != nil {
			w.viol("C08", "prefix-panics", ptext, before, fmt.Sprint(first.Panic), kinds, raw)
			return
		}
		for _, v := range first.Vals {
			part := retrieve(qtext, v)
			if part.Panic != nil {
				w.viol("C08", "continuation-panics", qtext, snap(v), fmt.Sprint(part.Panic), kinds, raw)
				return
			}
			concat = append(concat, part.Vals...)
		}
		if snap(doc) != before {
			// one of the three retrievals of the law changed the document the others read: they cannot compose
			w.viol("C08", "composition-law", "$"+stepsText(steps), before, fmt.Sprintf("P=%s Q=%s: the document reads %s after the retrievals of the law", ptext, qtext, snap(doc)), kinds, raw)
			return
		}
		ok := true
		if whole.Panic != nil {
			ok = false
		} else if len(concat) == 0 {
			ok = whole.Err != nil
		} else {
			ok = whole.Err == nil && reflect.DeepEqual(whole.Vals, concat)
		}
		if !ok {
			w.viol("C08", "composition-law", "$"+stepsText(steps), before,
				fmt.Sprintf("P=%s Q=%s: whole path gives %s, concatenation gives %s", ptext, qtext, whole, resp{Vals: concat}), kinds, raw)
			return
		}
	}
	// corollary 1: a union / multi-name selector is the concatenation of its single selectors
	for k := range steps {
		s := steps[k]
		var singles []Step
		if s.K == "union" && len(s.Subs) > 1 {
			hasStar := false
			for _, sub := range s.Subs {
				hasStar = hasStar || sub.K == "star"
			}
			if hasStar {
				continue // a lone `[*]` is the wildcard identifier, not a union member
			}
			for _, sub := range s.Subs {
				singles = append(singles, Step{K: "union", Subs: []Sub{sub}})
			}
		} else if s.K == "multi" {
			anyw := false
			for _, id := range s.Ids {
				anyw = anyw || id.K == "wild"
			}
			if anyw {
				continue // the corollary is stated for multi-NAME selectors
			}
			for _, id := range s.Ids {
				singles = append(singles, id)
			}
		} else {
			continue
		}
		if whole == nil {
			r := retrieve("$"+stepsText(steps), doc)
			whole = &r
		}
		w.count("C08:union-corollary", 1)
		var concat []interface{}
		for _, single := range singles {
			alt := append(append(append([]Step{}, steps[:k]...), single), steps[k+1:]...)
			r := retrieve("$"+stepsText(alt), doc)
			if r.Panic != nil {
				w.viol("C08", "single-selector-panics", "$"+stepsText(alt), before, fmt.Sprint(r.Panic), kinds, raw)
				return
			}
			concat = append(concat, r.Vals...)
		}
		if k > 0 && StepsVGgo(steps[:k]) {
			// concatenation per selector is not the selector applied per branch unless P is single-valued:
			// compare as multisets only
			if whole.Err == nil && !sameMultiset(whole.Vals, concat) || (whole.Err != nil) != (len(concat) == 0) {
				w.viol("C08", "union-corollary(multiset)", "$"+stepsText(steps), before, fmt.Sprintf("whole %s, singles %s", whole, resp{Vals: concat}), kinds, raw)
				return
			}
			continue
		}
		ok := true
		if len(concat) == 0 {
			ok = whole.Err != nil
		} else {
			ok = whole.Err == nil && reflect.DeepEqual(whole.Vals, concat)
		}
		if !ok {
			w.viol("C08", "union-corollary", "$"+stepsText(steps), before, fmt.Sprintf("whole %s, concatenation of single selectors %s", whole, resp{Vals: concat}), kinds, raw)
			return
		}
	}
	// corollary 2: P..XQ == XQ applied to every container (pre-order) of every value P selects
	for k := range steps {
		if steps[k].K != "rec" {
			continue
		}
		XQ := steps[k+1:]
		if stepsUseRoot(XQ) {
			continue
		}
		if whole == nil {
			r := retrieve("$"+stepsText(steps), doc)
			whole = &r
		}
		w.count("C08:rec-corollary", 1)
		first := resp{Vals: []interface{}{doc}}
		if k > 0 {
			first = retrieve("$"+stepsText(steps[:k]), doc)
		}
		var concat []interface{}
		xq := "$" + stepsText(XQ)
		for _, v := range first.Vals {
			for _, cont := range containersPreorder(v) {
				r := retrieve(xq, cont)
				if r.Panic != nil {
					w.viol("C08", "continuation-panics", xq, snap(cont), fmt.Sprint(r.Panic), kinds, raw)
					return
				}
				// X applied to a container of a kind it does not navigate contributes nothing (an error)
				concat = append(concat, r.Vals...)
			}
		}
		ok := true
		if len(concat) == 0 {
			ok = whole.Err != nil
		} else {
			ok = whole.Err == nil && reflect.DeepEqual(whole.Vals, concat)
		}
		if !ok {
			w.viol("C08", "rec-corollary", "$"+stepsText(steps), before, fmt.Sprintf("whole %s, X applied to every container in pre-order %s", whole, resp{Vals: concat}), kinds, raw)
			return
		}
	}
}

func sameMultiset(a, b []interface{}) bool {
	if len(a) != len(b) {
		return false
	}
	x, y := make([]string, len(a)), make([]string, len(b))
	for i := range a {
		x[i], y[i] = snap(a[i]), snap(b[i])
	}
	sort.Strings(x)
	sort.Strings(y)
	return reflect.DeepEqual(x, y)
}

// containersPreorder lists v and its descendant containers, pre-order, object members in
// ascending byte order of the key (the order the specification fixes: KeyLess)
func containersPreorder(v interface{}) []interface{} {
	var out []interface{}
	switch x := v.(type) {
	case map[string]interface{}:
		out = append(out, x)
		keys := make([]string, 0, len(x))
		for k := range x {
			keys = append(keys, k)
		}
		sort.Strings(keys)
		for _, k := range keys {
			out = append(out, containersPreorder(x[k])...)
		}
	case []interface{}:
		out = append(out, x)
		for _, e := range x {
			out = append(out, containersPreorder(e)...)
		}
	}
	return out
}

// C07: the same path on independently built equal maps (different insertion orders, pre-sized, grown and
// shrunk), several times each (Go randomises every range loop), interleaved with evaluations on another
// map that recycle the pooled key buffers.  Every evaluation must return the specification's sequence.
func (w *worker) checkOrder(c *selCase, text, kinds string, raw []byte) {
	nkeys := len(c.Doc.O)
	decoyDoc := map[string]interface{}{"q": 1.0, "zz": map[string]interface{}{"y": 1.0, "x": 2.0, "w": 3.0}, "m": 2.0, "b": 3.0, "k": 4.0, "a": 5.0, "\uffff": 6.0}
	decoy := safeParse("$..*", nil)
	shared := c.Doc.HasSharing()
	olog := &callLog{}
	ocfg := modelConfig(olog, false)
	pr := safeParse(text, &ocfg)
	if pr.Err != nil || pr.Panic != nil {
		w.viol("C07", "parse-failed", text, "", fmt.Sprintf("%v %v", pr.Err, pr.Panic), kinds, raw)
		return
	}
	for mo := 0; mo < 4; mo++ {
		for rep := 0; rep < 8; rep++ {
			// one of the four builds assembles the document from shared parts (equal sub-objects are one Go object)
			m := Mode{MapOrder: mo, Number: rep%2 == 1, Share: mo == 2 && shared}
			doc := c.Doc.ToGo(m)
			f := pr.F
			if rep >= 4 { // a freshly parsed function as well as a re-used one
				f = safeParse(text, &ocfg).F
			}
			olog.calls = nil
			r := safeCall(f, doc)
			w.count("C07:evaluations", 1)
			w.count(fmt.Sprintf("C07:evaluations:keys=%d", nkeys), 1)
			ok := r.Panic == nil
			if ok && c.Res.Ok {
				ok = r.Err == nil && valsMatch(c.Res.Vals, r.Vals)
			} else if ok {
				ok = r.Err != nil
			}
			if !ok {
				w.viol("C07", "order-differs", text, snap(doc), fmt.Sprintf("map built with insertion order #%d, evaluation %d: want %s got %s", mo, rep, expString(c.Res), r), fmt.Sprintf("keys=%d", nkeys), raw)
				return
			}
			// functions inside the path see the members in the same order (what they are handed decides what they return)
			if len(c.Res.Log) > 0 && c.FDet {
				w.logProp = "C07"
				before := len(w.res.Viol)
				w.checkLog(c, olog, text, snap(doc), fmt.Sprintf("keys=%d", nkeys), raw)
				w.logProp = ""
				if len(w.res.Viol) > before {
					return
				}
			}
			// the same order when the results are read through accessors (one accessor per selected member, each
			// bound to ITS member)
			if rep == 1 || rep == 6 {
				acfg := jsonpath.Config{}
				acfg.SetAccessorMode()
				if pa := safeParse(text, &acfg); pa.Err == nil && pa.Panic == nil {
					ra := safeCall(pa.F, doc)
					w.count("C07:evaluations-through-accessors", 1)
					if ra.Panic == nil && ra.Err == nil && c.Res.Ok {
						got, gp := func() (vs []interface{}, p interface{}) {
							defer func() { p = recover() }()
							return plainVals(ra.Vals), nil
						}()
						if gp == nil && !valsMatch(c.Res.Vals, got) {
							w.viol("C07", "order-differs", text+" (read through accessors)", snap(doc), fmt.Sprintf("map built with insertion order #%d, evaluation %d: want %s, the accessors read %s", mo, rep, expString(c.Res), snap(got)), fmt.Sprintf("keys=%d", nkeys), raw)
							return
						}
					}
				}
			}
			// the caller replaces one member of the SAME map object (same address, same number of members) and calls the
			// same parsed function again: the result must be that of a freshly parsed function on a freshly built equal map
			if rep == 3 {
				if dm, okm := doc.(map[string]interface{}); okm && len(dm) >= 2 {
					keys := make([]string, 0, len(dm))
					for k := range dm {
						keys = append(keys, k)
					}
					sort.Strings(keys)
					delete(dm, keys[len(keys)/2])
					dm["\x7fnew"] = "NEW"
					r1 := safeCall(f, dm)
					cp := make(map[string]interface{}, len(dm))
					for k, v := range dm {
						cp[k] = v
					}
					r2 := safeCall(safeParse(text, &ocfg).F, cp)
					w.count("C07:evaluations-after-an-edit-in-place", 1)
					if r1.String() != r2.String() {
						w.viol("C07", "order-differs", text+" (after the caller replaced a member of the same map)", snap(dm), fmt.Sprintf("the parsed function used before returns %s, a freshly parsed one on an equal map %s", r1, r2), fmt.Sprintf("keys=%d", nkeys), raw)
						return
					}
				}
			}
			// recycle the pooled key buffers: alternately a foreign object and a NARROWER sub-object of this
			// document (its larger keys only), so that a stale buffer holds keys that all belong to the document
			if rep%2 == 0 && decoy.F != nil {
				safeCall(decoy.F, decoyDoc)
			} else if len(c.Doc.O) >= 2 {
				sub := MV{T: "obj", O: c.Doc.O[len(c.Doc.O)/3:]}
				safeCall(f, sub.ToGo(m))
				if len(sub.O) > 2 {
					sub2 := MV{T: "obj", O: sub.O[len(sub.O)/2:]}
					safeCall(f, sub2.ToGo(m))
				}
			}
		}
	}
	w.distinct(fmt.Sprintf("%s|%d", kinds, nkeys))
}

func allFilterFuncs(fs []Func) bool {
	for _, f := range fs {
		if f.K != "ff" {
			return false
		}
	}
	return len(fs) > 0
}

// checkComposeFuncs: C08 for paths that end in filter functions.  P.f().g() == concat over P's results v of
// $.f().g() on v (a value whose function fails contributes nothing); three real retrievals, no expected values.
func (w *worker) checkComposeFuncs(c *selCase, m Mode, kinds string, raw []byte) {
	cfg := modelConfig(nil, false)
	retrieve := func(text string, doc interface{}) resp {
		pr := safeParse(text, &cfg)
		if pr.Err != nil || pr.Panic != nil {
			return resp{Panic: fmt.Sprintf("parse failed: %v %v", pr.Err, pr.Panic)}
		}
		return safeCall(pr.F, doc)
	}
	doc := c.Doc.ToGo(m)
	before := snap(doc)
	steps, ftext := c.Path.Steps, funcsText(c.Path.Funcs)
	if len(steps) == 0 || stepsUseRoot(steps) {
		return
	}
	whole := retrieve("$"+stepsText(steps)+ftext, doc)
	first := retrieve("$"+stepsText(steps), doc)
	w.count("C08:function-splits", 1)
	if whole.Panic != nil || first.Panic != nil {
		w.viol("C08", "prefix-panics", "$"+stepsText(steps)+ftext, before, fmt.Sprint(whole.Panic, first.Panic), kinds, raw)
		return
	}
	var concat []interface{}
	for _, v := range first.Vals {
		part := retrieve("$"+ftext, v)
		if part.Panic != nil {
			w.viol("C08", "continuation-panics", "$"+ftext, snap(v), fmt.Sprint(part.Panic), kinds, raw)
			return
		}
		concat = append(concat, part.Vals...)
	}
	ok := true
	if len(concat) == 0 {
		ok = whole.Err != nil
	} else {
		ok = whole.Err == nil && reflect.DeepEqual(whole.Vals, concat)
	}
	if !ok {
		w.viol("C08", "composition-law", "$"+stepsText(steps)+ftext, before,
			fmt.Sprintf("P=$%s Q=$%s: whole path gives %s, concatenation gives %s", stepsText(steps), ftext, whole, resp{Vals: concat}), kinds, raw)
	}
}
