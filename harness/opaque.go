package main

// Non-JSON Go values for C20.  A model value [t |-> "opq", id, ty, seq] stands for a value of
// Go type number ty; values with the same (id, ty) are the same value (DeepEqual to each other
// iff the type is DeepEqual to itself), different ids give values that are not DeepEqual.

import (
	"fmt"
	"reflect"
)

type opqStruct struct {
	A int
	B string
}
type opqEmpty struct{}
type opqMap map[string]int
type opqSlice []string
type opqIface interface{ M() }
type opqPtrT struct{ X int }

type opqType struct {
	name   string
	selfEq bool // reflect.DeepEqual(x, x)
	mk     func(id int) interface{}
}

var opqFuncs = map[int]func(){}
var opqChans = map[int]chan int{}
var opqPtrs = map[int]*opqPtrT{}
var opqErrs = map[int]error{}

var opqTypes = []opqType{
	0:  {"main.opqStruct", true, func(id int) interface{} { return opqStruct{A: id, B: "x"} }},
	1:  {"struct {}", true, func(id int) interface{} { return struct{}{} }},
	2:  {"main.opqEmpty", true, func(id int) interface{} { return opqEmpty{} }},
	3:  {"main.opqMap", true, func(id int) interface{} { return opqMap{"k": id} }},
	4:  {"map[string]string", true, func(id int) interface{} { return map[string]string{"a": fmt.Sprint(id)} }},
	5:  {"main.opqSlice", true, func(id int) interface{} { return opqSlice{"a", fmt.Sprint(id)} }},
	6:  {"[]int", true, func(id int) interface{} { return []int{id, 2} }},
	7:  {"[]string", true, func(id int) interface{} { return []string{fmt.Sprint(id)} }},
	8:  {"int", true, func(id int) interface{} { return id }},
	9:  {"int64", true, func(id int) interface{} { return int64(id) }},
	10: {"uint8", true, func(id int) interface{} { return uint8(id) }},
	11: {"float32", true, func(id int) interface{} { return float32(id) + 0.5 }},
	12: {"*main.opqPtrT", true, func(id int) interface{} {
		if opqPtrs[id] == nil {
			opqPtrs[id] = &opqPtrT{X: id}
		}
		return opqPtrs[id]
	}},
	13: {"*int", true, func(id int) interface{} { var p *int; return p }},                                      // typed nil pointer
	14: {"map[string]interface {}", true, func(id int) interface{} { var m map[string]interface{}; return m }}, // typed nil map: JSON-typed, see note
	15: {"func()", false, func(id int) interface{} {
		if opqFuncs[id] == nil {
			opqFuncs[id] = func() {}
		}
		return opqFuncs[id]
	}},
	16: {"chan int", true, func(id int) interface{} {
		if opqChans[id] == nil {
			opqChans[id] = make(chan int)
		}
		return opqChans[id]
	}},
	17: {"[2]int", true, func(id int) interface{} { return [2]int{id, id} }},
	18: {"complex128", true, func(id int) interface{} { return complex(float64(id), 1) }},
	19: {"[]interface {}", true, func(id int) interface{} { var s []interface{}; return s }}, // typed nil slice: JSON-typed, see note
	20: {"error", true, func(id int) interface{} {
		if opqErrs[id] == nil {
			opqErrs[id] = fmt.Errorf("e%d", id)
		}
		return opqErrs[id]
	}},
	21: {"main.opqUncmp", true, func(id int) interface{} { return opqUncmp{F: []int{id}} }},
	// a pointer to an interface that holds a JSON object (the address a caller gave to json.Unmarshal): still a pointer,
	// not a decoded JSON value -- nothing may look through it
	22: {"*interface {}", true, func(id int) interface{} {
		if opqIfPtrs[id] == nil {
			p := new(interface{})
			*p = map[string]interface{}{"a": float64(id), "b": 2.0}
			opqIfPtrs[id] = p
		}
		return opqIfPtrs[id]
	}},
}

var opqIfPtrs = map[int]*interface{}{}

// uncomparable struct: using it with == panics at run time
type opqUncmp struct{ F []int }

// types 14 and 19 are map[string]interface{} / []interface{} typed nils: to the library they ARE
// JSON containers (empty object / empty array); the model uses them only via Gen_Opaque's
// dedicated constructors and never as "opq" leaves.  They stay in the table so the numbering is stable.
var opqLeafTypes = []int{0, 1, 2, 3, 4, 5, 6, 7, 8, 9, 10, 11, 12, 13, 15, 16, 17, 18, 20, 21, 22}

func opaqueValue(id, ty int) interface{} { return opqTypes[ty].mk(id) }

func opaqueTypeName(ty int) string { return reflect.TypeOf(opqTypes[ty].mk(0)).String() }

func opaqueIs(g interface{}, id, ty int) bool {
	want := opaqueValue(id, ty)
	if reflect.TypeOf(g) != reflect.TypeOf(want) {
		return false
	}
	switch ty {
	case 15:
		return reflect.ValueOf(g).Pointer() == reflect.ValueOf(want).Pointer()
	case 20:
		return g.(error).Error() == want.(error).Error()
	}
	return reflect.DeepEqual(g, want)
}

func opaqueSnap(g interface{}) string {
	v := reflect.ValueOf(g)
	switch v.Kind() {
	case reflect.Func, reflect.Chan, reflect.Ptr:
		if v.Kind() == reflect.Ptr && !v.IsNil() {
			return fmt.Sprintf("<%T %p %+v>", g, g, v.Elem().Interface())
		}
		return fmt.Sprintf("<%T %p>", g, g)
	}
	return fmt.Sprintf("<%T %+v>", g, g)
}
