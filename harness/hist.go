package main

// Family "hist" (C05): one parsed function, a history of calls / scribbles / unrelated activity.
// Every call must return what the specification demands for (path, document) -- which is also what a
// fresh Retrieve returns -- whatever happened before; slices returned earlier belong to the caller.

import (
	"encoding/json"
	"fmt"

	"github.com/AsaiYusuke/jsonpath"
)

type histOp struct {
	K   string `json:"k"`
	D   int    `json:"d"`
	Det bool   `json:"det"`
	Res expRes `json:"res"`
}
type histCase struct {
	Fam  string   `json:"fam"`
	Path Path     `json:"path"`
	Text []int    `json:"text"`
	Docs []MV     `json:"docs"`
	Ops  []histOp `json:"ops"`
}

func init() {
	families["hist"] = func(w *worker, inner []byte) {
		var c histCase
		if err := json.Unmarshal(inner, &c); err != nil {
			w.infra("bad hist case: " + err.Error())
			return
		}
		w.runHist(&c, inner)
	}
}

var unrelatedDoc = func() interface{} {
	var v interface{}
	json.Unmarshal([]byte(`{"l":[{"a":5,"b":[1,2,3,4,5,6,7,8,9,10,11,12,13,14,15,16,17,18,19,20,21,22,23,24,25,26,27,28,29,30,31,32,33,34,35,36,37,38,39,40]},{"a":6},{"c":{"d":{"e":[1,2,3]}}}],"x":5,"zz":{"q":1,"r":2,"s":3,"t":4,"u":5}}`), &v)
	return v
}()

// unrelated Parse/Retrieve activity that takes and returns pooled result containers and key slices
var bigArray = func() interface{} {
	a := make([]interface{}, 300)
	for i := range a {
		a[i] = float64(i)
	}
	return a
}()

func unrelatedActivity() {
	cfg := modelConfig(nil, false)
	jsonpath.Retrieve(`$[*]`, bigArray) // more than 256 results: buffers beyond the usual sizes
	for _, p := range []string{`$..*`, `$.l[?(@.a == $.x)]`, `$.l[0].b[*]`, `$.zz.*`, `$.l[*].a.g1()`, `$.l[?(@.b[?(@ > 30)])]`, `$.nosuch[`, `$.l[?(@.a == 1)].x`,
		// filters on OBJECTS whose expression does not depend on the member (whole-match true / false), early exits,
		// ranges as last step, nested objects: every way a pooled key slice or result buffer is taken and given back
		`$[?($.x == 5)]`, `$.zz[?($.x)]`, `$.zz[?(!$.x)]`, `$[?($.x == 6)]`, `$.zz[?(@ > 2)]`, `$.l[0].b[0:3]`, `$.l[0].b[1:2]`, `$.zz[?($.nosuch == $.nosuch2)]`, `$.*.*`, `$.l[0:2]`} {
		jsonpath.Retrieve(p, unrelatedDoc, cfg)
	}
}

func histString(c *histCase, upto int) string {
	s := ""
	for i := 0; i <= upto && i < len(c.Ops); i++ {
		o := c.Ops[i]
		if o.K == "call" {
			s += fmt.Sprintf("call(doc#%d) ", o.D)
		} else {
			s += o.K + " "
		}
	}
	return s
}

func (w *worker) runHist(c *histCase, raw []byte) {
	text := cps(c.Text)
	if c.Path.Text() != text {
		w.infra(fmt.Sprintf("renderer mismatch: go=%q tlc=%q", c.Path.Text(), text))
		return
	}
	w.count("cases", 1)
	w.count(fmt.Sprintf("history-length:%d", len(c.Ops)), 1)
	sig := stepKinds(c.Path.Steps)
	for pass, m := range []Mode{{}, {Number: true}, {}} {
		mixed := pass == 2 // third pass: consecutive calls alternate between the two number decodings
		cfg := modelConfig(nil, false)
		pr := safeParse(text, &cfg)
		if pr.Panic != nil || pr.Err != nil {
			w.viol("C05", "parse-failed", text, "", fmt.Sprintf("%v %v", pr.Err, pr.Panic), sig, raw)
			return
		}
		type saved struct {
			vals []interface{}
			snap string
			op   int
		}
		var kept []saved
		docObjs, docSnaps := map[string]interface{}{}, map[string]string{}
		for oi, op := range c.Ops {
			switch op.K {
			case "unrelated":
				unrelatedActivity()
				w.count("C05:unrelated", 1)
			case "scribble":
				for k := range kept {
					s := kept[k].vals[:cap(kept[k].vals)]
					for i := range s {
						s[i] = fmt.Sprintf("SCRIBBLE-%d-%d", k, i)
					}
					kept[k].snap = snap(kept[k].vals)
				}
				w.count("C05:scribbles", 1)
			case "call":
				if mixed {
					m = Mode{Number: oi%2 == 0}
				}
				// the caller evaluates the same document OBJECT again when the history names the same document again
				dk := fmt.Sprintf("%d/%v", op.D, m.Number)
				doc, seen := docObjs[dk]
				if !seen {
					doc = c.Docs[op.D-1].ToGo(m)
					docObjs[dk] = doc
				}
				before := snap(doc)
				if seen && before != docSnaps[dk] {
					w.viol("C05", "earlier-document-changed-by-a-later-call", text, docSnaps[dk], fmt.Sprintf("history: %s: document #%d, untouched by the caller, reads %s now", histString(c, oi), op.D, before), sig, raw)
					return
				}
				docSnaps[dk] = before
				r := safeCall(pr.F, doc)
				w.count("C05:calls", 1)
				if r.Panic != nil {
					w.viol("C05", "panic", text, before, fmt.Sprintf("history: %s: %v", histString(c, oi), r.Panic), sig, raw)
					return
				}
				if snap(doc) != before {
					w.count("skipped:doc-modified", 1) // C04's business; later calls would be blamed wrongly
					return
				}
				// (1) what the specification demands for this (path, document), whatever the history
				if op.Det {
					ok := true
					if op.Res.Ok {
						ok = r.Err == nil && valsMatch(op.Res.Vals, r.Vals)
					} else {
						ok = r.Err != nil
					}
					if !ok {
						w.viol("C05", "call-depends-on-history", text, before, fmt.Sprintf("history: %s: this call returned %s, the specification demands %s (decode %+v)", histString(c, oi), r, expString(op.Res), m), sig, raw)
						return
					}
				}
				// (2) what a fresh Retrieve of the same path returns on an equal document
				fresh := func() resp {
					d2 := c.Docs[op.D-1].ToGo(m)
					p2 := safeParse(text, &cfg)
					if p2.Err != nil || p2.Panic != nil {
						return resp{Panic: "fresh parse failed"}
					}
					return safeCall(p2.F, d2)
				}()
				same := (fresh.Err == nil) == (r.Err == nil)
				if same && r.Err == nil {
					same = snap(fresh.Vals) == snap(r.Vals)
				} else if same {
					same = fresh.Err.Error() == r.Err.Error()
				}
				if !same {
					w.viol("C05", "differs-from-fresh-retrieve", text, before, fmt.Sprintf("history: %s: this call returned %s, a fresh Retrieve returns %s", histString(c, oi), r, fresh), sig, raw)
					return
				}
				if r.Err == nil {
					kept = append(kept, saved{vals: r.Vals, snap: snap(r.Vals), op: oi})
				}
			}
			// slices returned earlier belong to the caller: nothing the library does later may change them
			for _, k := range kept {
				if snap(k.vals) != k.snap {
					w.viol("C05", "earlier-result-changed", text, "", fmt.Sprintf("history: %s: the slice returned by operation %d read %s when returned and reads %s now", histString(c, oi), k.op+1, k.snap, snap(k.vals)), sig, raw)
					return
				}
			}
		}
	}
	w.distinct(fmt.Sprintf("%s|%d", text, len(c.Ops)))
}
