package main

// Family "key" (C16): a key with its spellings as the specification renders them.  The member must be
// returned exactly (= direct map lookup) by every spelling in every position, among near-miss siblings.

import (
	"encoding/json"
	"fmt"
	"strings"
)

type keyCase struct {
	Fam   string `json:"fam"`
	Key   []int  `json:"key"`
	SQ    []int  `json:"sq"`
	DQ    []int  `json:"dq"`
	Esc   []int  `json:"esc"`
	Dot   []int  `json:"dot"`
	DotOK bool   `json:"dotok"`
}

func init() {
	families["key"] = func(w *worker, inner []byte) {
		var c keyCase
		if err := json.Unmarshal(inner, &c); err != nil {
			w.infra("bad key case: " + err.Error())
			return
		}
		w.runKey(&c, inner)
	}
}

// nearMisses: keys that a sloppy unescape / escape / class boundary would confuse with k
func nearMisses(k string) []string {
	cands := []string{
		strings.ReplaceAll(k, `\`, ``), strings.ReplaceAll(k, `\`, `\\`), k + "x", "x" + k, k + `\`, `\` + k,
		strings.ReplaceAll(k, `\n`, "\n"), strings.ReplaceAll(k, "\n", `\n`), strings.ReplaceAll(k, `A`, "A"),
		strings.ReplaceAll(k, "'", `\'`), strings.ReplaceAll(k, `"`, `\"`), strings.ReplaceAll(k, "'", ""), strings.ReplaceAll(k, `"`, ""),
		strings.ToUpper(k), strings.TrimSpace(k), k + " ", " " + k, strings.ReplaceAll(k, "�", "?"), strings.ReplaceAll(k, "�", "��"),
		string([]rune(k + "  ")[:1]), "", "*", "'" + k + "'", `"` + k + `"`, "." + k, "$", "@",
	}
	if rs := []rune(k); len(rs) > 1 {
		cands = append(cands, string(rs[:len(rs)-1]), string(rs[1:]))
	}
	seen := map[string]bool{k: true}
	out := []string{}
	for _, c := range cands {
		if !seen[c] {
			seen[c] = true
			out = append(out, c)
		}
	}
	return out
}

func (w *worker) runKey(c *keyCase, raw []byte) {
	key := cps(c.Key)
	if w.props["C18"] {
		// C18: the two quote styles are one spelling freedom -- a name written RAW between single quotes and between
		// double quotes (no escapes; only possible when it contains neither quote nor backslash) is accepted by both
		// or rejected by both, and selects the same member
		if !strings.ContainsAny(key, `'"\`) {
			doc := map[string]interface{}{key: "TARGET", key + "x": "SIBLING"}
			outcome := func(q string) string {
				pr := safeParse("$["+q+key+q+"]", nil)
				if pr.Panic != nil {
					return fmt.Sprint("PANIC ", pr.Panic)
				}
				if pr.Err != nil {
					return "rejected: " + parseErrClass(pr.Err)
				}
				return safeCall(pr.F, doc).String()
			}
			sq, dq := outcome("'"), outcome(`"`)
			w.count("C18:raw-quote-style-pairs", 1)
			if sq != dq {
				w.viol("C18", "spelling-changes-behaviour", "$['"+key+"'] vs $[\""+key+"\"]", snap(doc), fmt.Sprintf("raw name %q: single-quoted gives %s, double-quoted gives %s", key, sq, dq), "quotes", raw)
			}
		}
		if !w.props["C16"] {
			return
		}
	}
	w.count("cases", 1)
	w.count(fmt.Sprintf("keylen:%d", len(c.Key)), 1)
	if c.DotOK {
		w.count("with-dot-spelling", 1)
	}
	mk := func() map[string]interface{} {
		m := map[string]interface{}{key: "TARGET"}
		for i, s := range nearMisses(key) {
			m[s] = fmt.Sprintf("SIBLING-%d", i)
		}
		return m
	}
	type spell struct{ name, sel, recsel string }
	spells := []spell{{"['k']", cps(c.SQ), cps(c.SQ)}, {`["k"]`, cps(c.DQ), cps(c.DQ)}, {`['\uXXXX']`, cps(c.Esc), cps(c.Esc)}}
	if c.DotOK {
		spells = append(spells, spell{".k", "." + cps(c.Dot), cps(c.Dot)})
	}
	w.distinct(fmt.Sprintf("%d|%v", len(c.Key), c.DotOK))
	if w.n%2 == 0 {
		// every other key: the same quoted texts were first seen as STRING LITERALS of a filter (whose escape rule is
		// a different one).  What a text meant there must not leak into what it means as a member name.
		for _, quoted := range []string{strings.TrimSuffix(strings.TrimPrefix(cps(c.DQ), "["), "]"), strings.TrimSuffix(strings.TrimPrefix(cps(c.SQ), "["), "]")} {
			if pr := safeParse("$[?(@.v == "+quoted+" || @.w)]", nil); pr.F != nil {
				safeCall(pr.F, []interface{}{map[string]interface{}{"v": key}, map[string]interface{}{"w": 1.0}})
			}
			w.count("C16:names-after-same-text-as-literal", 1)
		}
	}
	for _, sp := range spells {
		type ctx struct {
			name, path string
			doc        interface{}
			want       string
		}
		obj := mk()
		ctxs := []ctx{
			{"root", "$" + sp.sel, obj, `["TARGET"]`},
			{"after ..", "$.." + sp.recsel, mk(), `["TARGET"]`},
			{"nested", "$.w" + sp.sel, map[string]interface{}{"w": mk()}, `["TARGET"]`},
			{"filter-exists", "$[?(@" + sp.sel + ")]", []interface{}{map[string]interface{}{"z": 1.0}, mk()}, ""},
			{"filter-compare", "$[?(@" + sp.sel + " == 'TARGET')]", []interface{}{mk(), map[string]interface{}{key: "other"}}, ""},
			{"omitted-root", strings.TrimPrefix(sp.sel, "."), mk(), `["TARGET"]`},
			{"omitted-root-then-step", strings.TrimPrefix(sp.sel, ".") + ".w", func() interface{} {
				m := mk()
				for k := range m {
					m[k] = map[string]interface{}{"w": m[k]}
				}
				m["w"] = "ROOT-W"
				return m
			}(), `["TARGET"]`},
		}
		for _, cx := range ctxs {
			w.count("C16:retrievals", 1)
			before := snap(cx.doc)
			pr := safeParse(cx.path, nil)
			if pr.Panic != nil || pr.Err != nil {
				w.viol("C16", "spelling-rejected", cx.path, before, fmt.Sprintf("spelling %s of key %q in position %q: err=%v panic=%v", sp.name, key, cx.name, pr.Err, pr.Panic), sp.name+"|"+cx.name, raw)
				continue
			}
			r := safeCall(pr.F, cx.doc)
			if r.Panic != nil || r.Err != nil {
				w.viol("C16", "member-not-returned", cx.path, before, fmt.Sprintf("spelling %s of key %q in position %q: %s", sp.name, key, cx.name, r), sp.name+"|"+cx.name, raw)
				continue
			}
			ok := false
			switch cx.name {
			case "filter-exists":
				ok = len(r.Vals) == 1 && snap(r.Vals[0]) == snap(cx.doc.([]interface{})[1])
			case "filter-compare":
				ok = len(r.Vals) == 1 && snap(r.Vals[0]) == snap(cx.doc.([]interface{})[0])
			default:
				ok = len(r.Vals) == 1 && r.Vals[0] == "TARGET"
			}
			if !ok {
				w.viol("C16", "wrong-member", cx.path, before, fmt.Sprintf("spelling %s of key %q in position %q returned %s", sp.name, key, cx.name, r), sp.name+"|"+cx.name, raw)
			}
		}
	}
}
