package main

// Calls into the real library, always through the public API, always under recover.

import (
	"fmt"
	"math"

	"github.com/AsaiYusuke/jsonpath"
)

type evalFn = func(interface{}) ([]interface{}, error)

type callRec struct {
	Fn  string
	Arg interface{} // for aggregates: a fresh []interface{} copy of the argument slice
	Acc bool        // the argument was (or contained) an Accessor: a C12 violation
}

type callLog struct{ calls []callRec }

func (l *callLog) byName() map[string][]callRec {
	m := map[string][]callRec{}
	for _, c := range l.calls {
		m[c.Fn] = append(m[c.Fn], c)
	}
	return m
}

func hasAccessor(v interface{}) bool {
	switch x := v.(type) {
	case jsonpath.Accessor:
		return true
	case []interface{}:
		for _, e := range x {
			if _, ok := e.(jsonpath.Accessor); ok {
				return true
			}
		}
	}
	return false
}

var ffNames = []string{"f1", "f2", "f3", "fid", "fodd", "ferr", "fprobe"}

// docProbe, when set, is called by the model function fprobe: it looks at the document DURING a retrieval
var docProbe func()
var afNames = []string{"g1", "g2", "gcnt", "gerr", "gid"}

// curVariant selects one of two behaviourally different implementations of the model's wrapper functions:
// variant 1 tags the function name inside every wrapper array with a trailing marker character.  Cases alternate between the variants, so a parsed
// tree that is (wrongly) shared between two Parse calls with different Configs under the same names shows.
// matches() strips the marker again.
var curVariant int

const variantMark = "\u200b"

var wrapperNames = map[string]bool{"f1": true, "f2": true, "f3": true, "fodd": true, "g1": true, "g2": true}

// cfgCalls counts the configurations built for the current case (reset per case, so a replay builds the same
// ones): the ORDER in which the Config methods are called rotates -- a Config means the same whatever the order.
var cfgCalls int

// modelConfig registers the model's function table (spec/Semantics.tla, ApplyFF / ApplyAF).
func modelConfig(log *callLog, accessor bool) jsonpath.Config {
	variant := curVariant
	cfgCalls++
	order := cfgCalls % 3
	mark := func(a []interface{}) []interface{} {
		if variant == 1 {
			a[0] = a[0].(string) + variantMark
		}
		return a
	}
	cfg := jsonpath.Config{}
	if accessor && order == 1 {
		cfg.SetAccessorMode()
	}
	setAggregates := func() {
		for _, name := range afNames {
			name := name
			cfg.SetAggregateFunction(name, func(vs []interface{}) (interface{}, error) {
				cp := make([]interface{}, len(vs))
				copy(cp, vs)
				if log != nil {
					log.calls = append(log.calls, callRec{Fn: name, Arg: cp, Acc: hasAccessor(cp)})
				}
				switch name {
				case "gerr":
					return nil, fmt.Errorf("boom-%s", name)
				case "gcnt":
					return float64(len(vs)), nil
				case "gid":
					return vs, nil // the very list the library handed over: it must stay what it is after the call returns
				}
				return mark(append([]interface{}{name}, cp...)), nil
			})
		}
	}
	if order == 2 {
		setAggregates()
		if accessor {
			cfg.SetAccessorMode()
		}
	}
	for _, name := range ffNames {
		name := name
		cfg.SetFilterFunction(name, func(v interface{}) (interface{}, error) {
			if log != nil {
				log.calls = append(log.calls, callRec{Fn: name, Arg: v, Acc: hasAccessor(v)})
			}
			switch name {
			case "ferr":
				return nil, fmt.Errorf("boom-%s", name)
			case "fodd":
				if f, ok := numOf(v); ok && int64(math.Floor(f))%2 != 0 { // as ApplyFF: floor(value) is odd
					return nil, fmt.Errorf("boom-%s", name)
				}
			case "fid":
				return v, nil
			case "fprobe":
				if docProbe != nil {
					docProbe()
				}
				return v, nil
			}
			return mark([]interface{}{name, v}), nil
		})
	}
	if order != 2 {
		setAggregates()
	}
	if accessor && order == 0 {
		cfg.SetAccessorMode()
	}
	return cfg
}

type parsed struct {
	F     evalFn
	Err   error
	Panic interface{}
}

func safeParse(text string, cfg *jsonpath.Config) (p parsed) {
	defer func() {
		if r := recover(); r != nil {
			p.Panic = r
		}
	}()
	if cfg != nil {
		p.F, p.Err = jsonpath.Parse(text, *cfg)
	} else {
		p.F, p.Err = jsonpath.Parse(text)
	}
	return
}

type resp struct {
	Vals  []interface{}
	Err   error
	Panic interface{}
}

func safeCall(f evalFn, doc interface{}) (r resp) {
	defer func() {
		if x := recover(); x != nil {
			r.Panic = x
		}
	}()
	r.Vals, r.Err = f(doc)
	return
}

func (r resp) String() string {
	if r.Panic != nil {
		return fmt.Sprintf("PANIC(%v)", r.Panic)
	}
	if r.Err != nil {
		return fmt.Sprintf("ERR(%T: %v)", r.Err, r.Err)
	}
	s := "["
	for i, v := range r.Vals {
		if i > 0 {
			s += ","
		}
		if a, ok := v.(jsonpath.Accessor); ok {
			s += "acc:" + snap(a.Get())
		} else {
			s += snap(v)
		}
	}
	return s + "]"
}

// errClass: "mne" "tu" "ff" or "other:<type>"
func errClass(err error) string {
	switch err.(type) {
	case jsonpath.ErrorMemberNotExist:
		return "mne"
	case jsonpath.ErrorTypeUnmatched:
		return "tu"
	case jsonpath.ErrorFunctionFailed:
		return "ff"
	}
	return fmt.Sprintf("other:%T", err)
}

func parseErrClass(err error) string {
	switch err.(type) {
	case jsonpath.ErrorInvalidSyntax:
		return "syntax"
	case jsonpath.ErrorInvalidArgument:
		return "arg"
	case jsonpath.ErrorFunctionNotFound:
		return "fnf"
	case jsonpath.ErrorNotSupported:
		return "nsup"
	}
	return fmt.Sprintf("other:%T", err)
}

// plainVals unwraps accessors
func plainVals(vs []interface{}) []interface{} {
	out := make([]interface{}, len(vs))
	for i, v := range vs {
		if a, ok := v.(jsonpath.Accessor); ok {
			out[i] = a.Get()
		} else {
			out[i] = v
		}
	}
	return out
}
