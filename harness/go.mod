module verifh

go 1.15

require github.com/AsaiYusuke/jsonpath v0.0.0

replace github.com/AsaiYusuke/jsonpath => /repo
