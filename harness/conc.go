package main

// C06.  (1) schedule replay: each goroutine's program is recorded alone (hook points), TLC (Sched.tla)
// enumerates / samples the release schedules the protocol allows, and the gate scheduler below forces
// each one on the real library; (2) free-running goroutines for the race detector (build with -race);
// (3) stress traces of hook events for Trace_Conc.

import (
	"bytes"
	"encoding/json"
	"flag"
	"fmt"
	"os"
	"runtime"
	"strconv"
	"strings"
	"sync"
	"sync/atomic"
	"time"

	"github.com/AsaiYusuke/jsonpath"
)

func goid() int {
	var buf [64]byte
	n := runtime.Stack(buf[:], false)
	f := bytes.Fields(buf[:n])
	id, _ := strconv.Atoi(string(f[1]))
	return id
}

type program func() string

type sharedState struct {
	doc, big interface{}
	fnFilter evalFn
	fnAgg    evalFn
	fnLit    evalFn
	fnUnion  evalFn
	fnNotEq  evalFn
	fnKeys   evalFn
	cfgA     jsonpath.Config
	cfgB     jsonpath.Config
}

func mustDoc(s string) interface{} {
	var v interface{}
	if err := json.Unmarshal([]byte(s), &v); err != nil {
		panic(err)
	}
	return v
}

func newShared() *sharedState {
	s := &sharedState{}
	s.doc = mustDoc(`[{"a":1,"z":{"k":1,"j":2}},{"a":2,"b":[1,2,3]},{"b":1}]`)
	s.big = mustDoc(`{"s":["xxxxxxxxxxxxxxxxxxxxxxxxxxxxxxxxxxxxxxxxxxxxxxxxxxxxxxxxxxxxxxxx-match","yyyyyyyyyyyyyyyyyyyyyyyyyyyyyyyyyyyyyyyyyyyyyyyyyyyyyyyyyyyyyyyyyyyyyyyy","xxxxxxxxxxxxxxxxxxxxxxxxxxxxxxxxxxxxxxxxxxxxxxxxxxxxxxxxxxxxxxxx-match-2","zzzzzzzzzzzzzzzzzzzzzzzzzzzzzzzzzzzzzzzzzzzzzzzzzzzzzzzzzzzzzzzzzzzzzzzzzz","short"],"l2":[{"a":1},{"a":2},{"a":3}],"l":[{"a":1},{"a":2},{"a":3},{"a":4},{"a":5},{"a":6},{"a":7},{"a":8},{"a":9},{"a":10},{"a":11},{"a":12},{"a":13},{"a":14},{"a":15},{"a":16},{"a":17},{"a":18},{"a":19},{"a":20}],"x":2,"m":{"q":1,"r":{"s":2,"t":3}}}`)
	s.cfgA = modelConfig(nil, false)
	s.cfgB = modelConfig(nil, true)
	mk := func(p string) evalFn {
		f, err := jsonpath.Parse(p, s.cfgA)
		if err != nil {
			panic(p + ": " + err.Error())
		}
		return f
	}
	s.fnFilter = mk(`$[?(@.a > 0)]`)
	s.fnAgg = mk(`$[*].a.g1()`)
	s.fnLit = mk(`$.l[?($.x == 2)].a`)
	s.fnUnion = mk(`$[*,0]`)
	s.fnNotEq = mk(`$.l[?(@.zz != $.zz)].a`)
	s.fnKeys = mk(`$..*`)
	return s
}

func resString(v []interface{}, err error) string {
	if err != nil {
		return "ERR " + err.Error()
	}
	parts := []string{}
	for _, x := range v {
		if a, ok := x.(jsonpath.Accessor); ok {
			parts = append(parts, "ACC:"+snap(a.Get()))
		} else {
			parts = append(parts, snap(x))
		}
	}
	return "[" + strings.Join(parts, ",") + "]"
}

// program pairs for the schedule replay
func schedPrograms(s *sharedState) [][]program {
	parseCall := func(path string, cfg *jsonpath.Config, doc interface{}) program {
		return func() string {
			var f evalFn
			var err error
			if cfg != nil {
				f, err = jsonpath.Parse(path, *cfg)
			} else {
				f, err = jsonpath.Parse(path)
			}
			if err != nil {
				return "PARSE-ERR " + err.Error()
			}
			return resString(f(doc))
		}
	}
	call := func(f evalFn, doc interface{}) program { return func() string { return resString(f(doc)) } }
	seq := func(ps ...program) program {
		return func() string {
			out := []string{}
			for _, p := range ps {
				out = append(out, p())
			}
			return strings.Join(out, " ; ")
		}
	}
	return [][]program{
		{seq(parseCall(`$[?(@.a == 1)]`, nil, s.doc)), seq(call(s.fnFilter, s.doc), parseCall(`$.x[`, nil, s.doc))},
		{call(s.fnAgg, s.doc), call(s.fnAgg, s.doc)},
		{parseCall(`$[*].a.f1()`, &s.cfgA, s.doc), parseCall(`$[0]`, &s.cfgB, s.doc)},
		{seq(parseCall(`$.nosuch.f9()`, &s.cfgA, s.doc), call(s.fnKeys, s.doc)), parseCall(`$[?(@.b)]`, &s.cfgB, s.doc), call(s.fnLit, s.big)},
	}
}

type arrival struct {
	g     int
	point int
	done  bool
	res   string
}

type gates struct {
	mu       sync.Mutex
	gmap     map[int]int
	arrivals chan arrival
	release  []chan struct{}
	record   [][]int // non-nil: just record
}

func (s *gates) hook(point int, id interface{}) {
	s.mu.Lock()
	g, ok := s.gmap[goid()]
	s.mu.Unlock()
	if !ok {
		return
	}
	if s.record != nil {
		s.record[g] = append(s.record[g], point)
		return
	}
	s.arrivals <- arrival{g: g, point: point}
	<-s.release[g]
}

func (s *gates) start(g int, p program) {
	go func() {
		s.mu.Lock()
		s.gmap[goid()] = g
		s.mu.Unlock()
		if s.record == nil {
			s.arrivals <- arrival{g: g, point: -1} // start gate
			<-s.release[g]
		}
		res := func() (r string) {
			defer func() {
				if x := recover(); x != nil {
					r = fmt.Sprintf("PANIC %v", x)
				}
			}()
			return p()
		}()
		s.arrivals <- arrival{g: g, done: true, res: res}
	}()
}

// recordAlone runs every program of a pair alone and returns its hook sequence and result
func recordAlone(ps []program) ([][]int, []string) {
	seqs := make([][]int, len(ps))
	res := make([]string, len(ps))
	for g := range ps {
		s := &gates{gmap: map[int]int{}, arrivals: make(chan arrival, 4), record: make([][]int, len(ps))}
		jsonpath.VerifHook = s.hook
		s.start(g, ps[g])
		a := <-s.arrivals
		jsonpath.VerifHook = nil
		seqs[g], res[g] = s.record[g], a.res
		if seqs[g] == nil {
			seqs[g] = []int{}
		}
	}
	return seqs, res
}

type schedStep struct {
	G     int `json:"g"`
	Await []struct {
		G     int `json:"g"`
		Point int `json:"point"`
	} `json:"await"`
}
type schedCase struct {
	Fam   string      `json:"fam"`
	Pair  int         `json:"pair"`
	Seqs  [][]int     `json:"seqs"`
	Trace []schedStep `json:"trace"`
}

func init() {
	families["sched"] = func(w *worker, inner []byte) {
		var c schedCase
		if err := json.Unmarshal(inner, &c); err != nil {
			w.infra("bad sched case: " + err.Error())
			return
		}
		w.runSched(&c, inner)
	}
	commands["sched-record"] = schedRecordMain
	commands["race"] = raceMain
	commands["stress-trace"] = stressTraceMain
}

func schedRecordMain(args []string) {
	s := newShared()
	out := []map[string]interface{}{}
	for i, ps := range schedPrograms(s) {
		seqs, res := recordAlone(ps)
		out = append(out, map[string]interface{}{"pair": i, "seqs": seqs, "results": res})
	}
	b, _ := json.Marshal(out)
	os.Stdout.Write(b)
}

var schedShared *sharedState
var schedSeqRes = map[int][]string{}
var schedSeqs = map[int][][]int{}

func (w *worker) runSched(c *schedCase, raw []byte) {
	if schedShared == nil {
		schedShared = newShared()
	}
	ps := schedPrograms(schedShared)[c.Pair]
	if _, ok := schedSeqRes[c.Pair]; !ok {
		schedSeqs[c.Pair], schedSeqRes[c.Pair] = recordAlone(ps)
	}
	w.count("cases", 1)
	w.count(fmt.Sprintf("pair:%d", c.Pair), 1)
	// the model was instantiated with the sequences recorded by the driver process; they must be the ones
	// this process records (else the library is nondeterministic in its hook sequence: not a verdict)
	if fmt.Sprint(schedSeqs[c.Pair]) != fmt.Sprint(c.Seqs) {
		w.infra(fmt.Sprintf("recorded hook sequences differ between processes: %v vs %v", schedSeqs[c.Pair], c.Seqs))
		return
	}
	desc := func() string {
		gs := []string{}
		for _, st := range c.Trace {
			gs = append(gs, strconv.Itoa(st.G))
		}
		return "releases " + strings.Join(gs, " ")
	}
	try := func() (drifted string, stuck string, results []string) {
		n := len(ps)
		s := &gates{gmap: map[int]int{}, arrivals: make(chan arrival, 16), release: make([]chan struct{}, n)}
		for i := range s.release {
			s.release[i] = make(chan struct{}, 1)
		}
		jsonpath.VerifHook = s.hook
		defer func() { jsonpath.VerifHook = nil }()
		for g := 0; g < n; g++ {
			s.start(g, ps[g])
		}
		for i := 0; i < n; i++ {
			select {
			case <-s.arrivals:
			case <-time.After(5 * time.Second):
				return "", "goroutines did not reach their start gates", nil
			}
		}
		res := make([]string, n)
		finished := 0
		note := func(a arrival) {
			if a.done {
				finished++
				res[a.g] = a.res
			}
		}
		// the real code left the protocol of Sched.tla: let everything run free; what remains to be judged is
		// the property itself (every call returns, and returns what it returns alone)
		cleanup := func() bool {
			jsonpath.VerifHook = nil
			for g := 0; g < n; g++ {
				close(s.release[g])
			}
			deadline := time.After(5 * time.Second)
			for finished < n {
				select {
				case a := <-s.arrivals:
					note(a)
				case <-deadline:
					return false
				}
			}
			return true
		}
		drift := func(why string) (string, string, []string) {
			if !cleanup() {
				return "", why + "; and then " + fmt.Sprint(n-finished) + " goroutine(s) never returned", nil
			}
			return why, "", res
		}
		for si, st := range c.Trace {
			s.release[st.G-1] <- struct{}{}
			want := map[int]int{}
			for _, a := range st.Await {
				want[a.G-1] = a.Point
			}
			deadline := time.After(3 * time.Second)
			for len(want) > 0 {
				select {
				case a := <-s.arrivals:
					note(a)
					p, ok := want[a.g]
					switch {
					case !ok:
						return drift(fmt.Sprintf("step %d (release g%d): unexpected arrival of g%d at hook %d (done=%v): the protocol does not allow it here", si+1, st.G, a.g+1, a.point, a.done))
					case a.done && p != 0:
						return drift(fmt.Sprintf("step %d: g%d finished but hook %d was expected", si+1, a.g+1, p))
					case !a.done && a.point != p:
						return drift(fmt.Sprintf("step %d: g%d arrived at hook %d, expected %d", si+1, a.g+1, a.point, p))
					}
					delete(want, a.g)
				case <-deadline:
					return drift(fmt.Sprintf("step %d (release g%d): expected arrivals %v did not happen", si+1, st.G, want))
				}
			}
		}
		// nobody may arrive any more
		select {
		case a := <-s.arrivals:
			note(a)
			return drift(fmt.Sprintf("after the schedule: unexpected arrival of g%d at hook %d", a.g+1, a.point))
		default:
		}
		return "", "", res
	}
	drifted, stuck, res := try()
	if stuck != "" {
		// a call that never returns: must reproduce in 2 of 3 runs to be reported
		rep := 1
		for i := 0; i < 2; i++ {
			if _, s2, _ := try(); s2 != "" {
				rep++
			}
		}
		if rep >= 2 {
			w.viol("C06", "call-never-returns", fmt.Sprintf("program pair %d", c.Pair), fmt.Sprint(c.Seqs), desc()+": "+stuck, "sched", raw)
		} else {
			w.infra("stuck schedule not reproduced: " + stuck)
		}
		return
	}
	if drifted != "" {
		// The code does not follow the lock protocol of Sched.tla at this point (e.g. Parse is no longer serialised
		// by one mutex).  That is a statement about the mechanism, not about C06: no verdict from the protocol; the
		// results of the free run are still compared with the sequential ones below.
		w.count("C06:schedules-not-forcible(mechanism differs from Sched.tla)", 1)
		if len(w.res.Samples) < 3 {
			w.res.Samples = append(w.res.Samples, "NOTE schedule not forcible: "+desc()+": "+drifted)
		}
	}
	for g := range res {
		if res[g] != schedSeqRes[c.Pair][g] {
			w.viol("C06", "result-differs-from-sequential", fmt.Sprintf("program pair %d, goroutine %d", c.Pair, g+1), fmt.Sprint(c.Seqs), fmt.Sprintf("%s: got %s, alone it returns %s", desc(), res[g], schedSeqRes[c.Pair][g]), "sched", raw)
			return
		}
	}
	if drifted == "" {
		w.count("C06:schedules-forced", 1)
	}
	w.distinct(desc())
}

// ---------------------------------------------------------------- free-running goroutines (race detector)

type raceOp struct {
	name string
	run  func() string
}

func raceCorpus(s *sharedState, yield bool) []raceOp {
	// aggregate functions that yield / block while they hold their argument (use-after-release shows)
	cfg := jsonpath.Config{}
	cfg.SetAggregateFunction("sum", func(vs []interface{}) (interface{}, error) {
		t := 0.0
		for i, v := range vs {
			if yield && i%2 == 0 {
				time.Sleep(50 * time.Microsecond)
			}
			f, _ := numOf(v)
			t += f
		}
		return t, nil
	})
	cfg.SetFilterFunction("twice", func(v interface{}) (interface{}, error) {
		runtime.Gosched()
		f, _ := numOf(v)
		return f * 2, nil
	})
	// a filter function applied to CONTAINERS of the shared document (the document's own arrays and objects are
	// handed to user code: whatever the library does around that call happens on shared data)
	cfg.SetFilterFunction("size", func(v interface{}) (interface{}, error) {
		runtime.Gosched()
		switch x := v.(type) {
		case []interface{}:
			return float64(len(x)), nil
		case map[string]interface{}:
			return float64(len(x)), nil
		case string:
			return float64(len(x)), nil
		}
		return 0.0, nil
	})
	shared := map[string]evalFn{}
	paths := []string{
		`$.l.size()`, `$.m.r.size()`, `$.m.size()`, `$..[?(@.size() > 1)]`, `$.l[?(@.size() == 1)].a`, `$.s.size()`, `$.*.size()`,
		`$`, `$.l`, `$.l[0].a`, `$.l[*].a`, `$..a`, `$..*`, `$.l[0,1,2]`, `$.l[1:5:2]`, `$.l[::-1]`, `$.l[*,0]`, `$.l[0,*]`, `$.m[*,*]`, `$.m['q','r']`,
		`$.l[?(@.a)]`, `$.l[?(!@.b)]`, `$.l[?(@.a == 2)]`, `$.l[?(2 == @.a)]`, `$.l[?(@.a != 2)]`, `$.l[?(@.a < 3)]`, `$.l[?(@.a <= 3)]`, `$.l[?(@.a > 18)]`, `$.l[?(@.a >= 18)]`,
		`$.l[?(@.a == $.x)]`, `$.l[?($.x == 2)]`, `$.l[?($.x == 3)]`, `$.l[?(1 == 2)]`, `$.l[?(1 < $.x)]`, `$.l[?(3 < $.x)]`, `$.l[?(3 <= $.x)].a`, `$.l[?($.x > @.a)]`, `$.l[?(@.zz != $.zz)]`, `$.l[?(@.a =~ /a/)]`, `$.l[?(@.a == 1 || @.a == 3)]`,
		`$.l[?(@.a > 1 && @.a < 4)]`, `$.l[?(@.a.twice() == 4)]`, `$.l[*].a.sum()`, `$..a.sum()`, `$.l[?(@.a)].a.sum().twice()`, `$.m.r[?(@ > 1)]`, `$.m..[?(@)]`, `$.l[?($)]`, `$.l[?(!$.nosuch)].a`,
		`$.nosuch`, `$.l.a`, `$.x[0]`,
		// per-node scratch state shows when one parsed function is used on inputs of different sizes / contents at once
		`$.s[?(@ =~ /match/)]`, `$.s[?(@ =~ /^y/)]`, `$..[-2:]`, `$..[1:3]`, `$..[::2]`, `$..[?(@.a > 1)]`, `$..[*,0]`,
		// operands that are absent for every member / absent `$` operands, with every validator type:
		// these evaluations hand the package-level emptyList / fullList through the comparators
		`$.l[?(@.zz == 'x')]`, `$.l[?(@.zz != 'x')].a`, `$.l[?(@.zz =~ /x/)]`, `$.l[?($.zz == 'x')]`, `$.l[?(@.zz == 1)]`, `$.l[?(@.zz > 1)]`, `$.l[?(@.zz == true)]`,
		`$.l[?(@.zz == null)]`, `$.l[?($.zz =~ /x/)]`, `$.l[?($.zz > 1)]`, `$.l[?(@.zz == $.zz)].a`, `$.l[?(@.zz)]`, `$.l[?(!@.zz)].a`, `$.l[?($.zz || @.a == 1)]`, `$.l[?(!$.zz && @.a == 2)]`,
		// failing calls of a shared function (the error path), several kinds
		`$.l[99]`, `$.l[0].a.b`, `$.m.q.r`, `$.l[?(@.a > 99)]`, `$..zz`, `$.l[*].zz`,
	}
	for _, p := range paths {
		f, err := jsonpath.Parse(p, cfg)
		if err != nil {
			panic(p + ": " + err.Error())
		}
		shared[p] = f
	}
	ops := []raceOp{}
	for _, p := range paths {
		p := p
		ops = append(ops, raceOp{"call shared " + p, func() string { return resString(shared[p](s.big)) }})
	}
	for _, p := range []string{`$.l[?(@.a == 3)]`, `$..*`, `$.l[*].a.sum()`, `$.x[`, `$.l[?(@.a.nosuch())]`, `$[?(1 < 2)]`, `$.m['q','r']`, `[?(@.a)]`,
		// Parse while parsed functions are being called: every way a slice can be spelled (omitted bounds, explicit empty step)
		`$.l[0:2:]`, `$.l[::]`, `$.l[1::]`, `$.l[:2:1]`, `$.l[::-1]`, `$..[0:1:]`} {
		p := p
		ops = append(ops, raceOp{"Retrieve " + p, func() string { return resString(jsonpath.Retrieve(p, s.big, cfg)) }})
		ops = append(ops, raceOp{"Retrieve(no config) " + p, func() string { return resString(jsonpath.Retrieve(p, s.big)) }})
	}
	acc := jsonpath.Config{}
	acc.SetAccessorMode()
	ops = append(ops, raceOp{"Retrieve accessor $.l[*].a", func() string { return resString(jsonpath.Retrieve(`$.l[*].a`, s.big, acc)) }})
	// parsed functions in accessor mode shared by the goroutines, on the shared document: nothing is Set, so
	// nothing may be written
	for _, p := range []string{`$.l[?(@.a)]`, `$.l[?(@.a > 1)].a`, `$.l[*]`, `$.l[0:3]`, `$..a`, `$.m.*`, `$.m.r[?(@ > 1)]`, `$.l[0,0]`} {
		f, err := jsonpath.Parse(p, acc)
		if err != nil {
			panic(p + ": " + err.Error())
		}
		p := p
		ops = append(ops, raceOp{"call shared (accessor mode) " + p, func() string { return resString(f(s.big)) }})
	}
	return ops
}

func raceMain(args []string) {
	fs := flag.NewFlagSet("race", flag.ExitOnError)
	seed := fs.Int64("seed", 1, "")
	rounds := fs.Int("rounds", 20, "")
	outp := fs.String("out", "", "")
	fs.Parse(args)
	s := newShared()
	type result struct {
		Goroutines int      `json:"goroutines"`
		Calls      int      `json:"calls"`
		Mismatches []string `json:"mismatches"`
		Ops        int      `json:"ops"`
	}
	res := result{}
	for _, yield := range []bool{false, true} {
		// expected results come from a second, independently parsed corpus: the shared functions of `ops`
		// must see their very first calls concurrently (lazily built state in the tree shows only then)
		ref := raceCorpus(s, yield)
		want := make([]string, len(ref))
		for i, o := range ref {
			want[i] = o.run()
		}
		for _, ng := range []int{2, 4, 16} {
			ops := raceCorpus(s, yield) // fresh shared functions for every group of goroutines
			res.Ops = len(ops)
			var wg sync.WaitGroup
			var calls int64
			var mu sync.Mutex
			start := make(chan struct{})
			for g := 0; g < ng; g++ {
				wg.Add(1)
				go func(g int) {
					defer wg.Done()
					<-start
					n := len(ops)
					x := uint64(*seed)*2654435761 + uint64(g)*40503 + 1
					for r := 0; r < *rounds*n/ng+n/2; r++ {
						x = x*6364136223846793005 + 1442695040888963407
						i := int((x >> 33) % uint64(n))
						if r < n && g%4 != 3 {
							i = r % n // most goroutines first walk the corpus in lock step: the FIRST calls of a shared function overlap
						}
						got := ops[i].run()
						atomic.AddInt64(&calls, 1)
						if got != want[i] {
							mu.Lock()
							if len(res.Mismatches) < 10 {
								res.Mismatches = append(res.Mismatches, fmt.Sprintf("%d goroutines: %s returned %s, alone it returns %s", ng, ops[i].name, got, want[i]))
							}
							mu.Unlock()
						}
					}
				}(g)
			}
			close(start)
			wg.Wait()
			res.Calls += int(calls)
			res.Goroutines = ng
		}
	}
	b, _ := json.Marshal(res)
	if *outp != "" {
		os.WriteFile(*outp, b, 0o644)
	} else {
		os.Stdout.Write(b)
	}
}

// ---------------------------------------------------------------- stress trace for Trace_Conc

func stressTraceMain(args []string) {
	fs := flag.NewFlagSet("stress-trace", flag.ExitOnError)
	outp := fs.String("out", "trace.ndjson", "")
	max := fs.Int("max", 4000, "events")
	fs.Parse(args)
	s := newShared()
	ops := raceCorpus(s, true)
	type ev struct {
		Seq   int `json:"seq"`
		G     int `json:"g"`
		Point int `json:"point"`
		Buf   int `json:"buf"`
	}
	var mu sync.Mutex
	var events []ev
	ids := map[string]int{}
	gids := map[int]int{}
	var keepAlive []interface{}
	defer func() { _ = keepAlive }()
	jsonpath.VerifHook = func(point int, id interface{}) {
		// the sequence number is taken while the resource is held: after Get / before Put, inside the mutex
		mu.Lock()
		defer mu.Unlock()
		if len(events) >= *max {
			return
		}
		gi := goid()
		if _, ok := gids[gi]; !ok {
			gids[gi] = len(gids) + 1
		}
		b := 0
		if id != nil {
			// keep every pooled object alive: an object the library never puts back would otherwise be
			// collected and its address re-used by a NEW object, which would look like a double Get
			keepAlive = append(keepAlive, id)
			k := fmt.Sprintf("%p", id)
			if _, ok := ids[k]; !ok {
				ids[k] = len(ids) + 1
			}
			b = ids[k]
		}
		events = append(events, ev{Seq: len(events) + 1, G: gids[gi], Point: point, Buf: b})
	}
	var wg sync.WaitGroup
	for g := 0; g < 4; g++ {
		wg.Add(1)
		go func(g int) {
			defer wg.Done()
			for r := 0; r < 60; r++ {
				ops[(r*7+g*13)%len(ops)].run()
			}
		}(g)
	}
	wg.Wait()
	jsonpath.VerifHook = nil
	f, _ := os.Create(*outp)
	defer f.Close()
	for _, e := range events {
		b, _ := json.Marshal(e)
		f.Write(b)
		f.Write([]byte("\n"))
	}
	fmt.Println(len(events))
}
