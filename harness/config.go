package main

import (
	"encoding/json"
	"fmt"

	"github.com/AsaiYusuke/jsonpath"
)

// Family "config": behaviours of spec/Gen_Config (the Config object as a state machine) replayed on a real
// Config value, a real Parse and a real call.  What the parsed function does must be what the specification's
// snapshot at the moment of Parse says: not what the Config became later, not the order of the Set* calls.
type configOp struct {
	Op string `json:"op"`
	N  string `json:"n"`
	I  int    `json:"i"`
}
type configCase struct {
	Ops    []configOp `json:"ops"`
	Probe  string     `json:"probe"`
	Expect struct {
		Parsed bool `json:"parsed"`
		Ok     bool `json:"ok"`
		Acc    bool `json:"acc"`
		F1     int  `json:"f1"`
		F2     int  `json:"f2"`
		G1     int  `json:"g1"`
	} `json:"expect"`
}

var probePaths = map[string]string{"name": `$.a`, "f1": `$.a.f1()`, "f2": `$.a.f2()`, "g1": `$.*.g1()`, "f1g1": `$.*.f1().g1()`}

func init() {
	families["config"] = func(w *worker, inner []byte) {
		var c configCase
		if err := json.Unmarshal(inner, &c); err != nil {
			w.infra("bad config case: " + err.Error())
			return
		}
		P := w.props
		text := probePaths[c.Probe]
		desc := ""
		ff := func(n string, i int) func(interface{}) (interface{}, error) {
			return func(v interface{}) (interface{}, error) { return []interface{}{n, float64(i), v}, nil }
		}
		af := func(n string, i int) func([]interface{}) (interface{}, error) {
			return func(vs []interface{}) (interface{}, error) {
				return []interface{}{n, float64(i), append([]interface{}{}, vs...)}, nil
			}
		}
		cfg := jsonpath.Config{}
		var f func(interface{}) ([]interface{}, error)
		var perr error
		var pp interface{}
		written := false
		for _, op := range c.Ops {
			desc += fmt.Sprintf(" %s(%s,%d)", op.Op, op.N, op.I)
			switch op.Op {
			case "ff":
				cfg.SetFilterFunction(op.N, ff(op.N, op.I))
				written = true
			case "af":
				cfg.SetAggregateFunction(op.N, af(op.N, op.I))
				written = true
			case "acc":
				cfg.SetAccessorMode()
				written = true
			case "parse":
				func() {
					defer func() { pp = recover() }()
					if !written && w.n%2 == 0 {
						f, perr = jsonpath.Parse(text) // an untouched Config and no Config at all mean the same
					} else {
						f, perr = jsonpath.Parse(text, cfg)
					}
				}()
			}
		}
		w.count("config-histories", 1)
		prop := primary(P, "C19", "C12")
		if pp != nil {
			w.viol(prop, "parse-panics", text, "", "Config calls:"+desc+": "+fmt.Sprint(pp), c.Probe, inner)
			return
		}
		if !c.Expect.Ok {
			if perr == nil || parseErrClass(perr) != "fnf" {
				w.viol(prop, "config-not-what-parse-was-given", text, "", fmt.Sprintf("Config calls:%s: a function of the path was not registered when Parse was called, yet Parse returned err=%v", desc, perr), c.Probe, inner)
			}
			return
		}
		if perr != nil || f == nil {
			w.viol(prop, "config-not-what-parse-was-given", text, "", fmt.Sprintf("Config calls:%s: every function of the path was registered when Parse was called, yet Parse returned err=%v", desc, perr), c.Probe, inner)
			return
		}
		doc := map[string]interface{}{"a": 1.0, "b": 2.0}
		r := safeCall(f, doc)
		if r.Panic != nil || r.Err != nil {
			w.viol(prop, "config-call-failed", text, snap(doc), "Config calls:"+desc+": "+r.String(), c.Probe, inner)
			return
		}
		f1 := func(v interface{}) interface{} { return []interface{}{"f1", float64(c.Expect.F1), v} }
		var want interface{}
		switch c.Probe {
		case "name":
			want = 1.0
		case "f1":
			want = f1(1.0)
		case "f2":
			want = []interface{}{"f2", float64(c.Expect.F2), 1.0}
		case "g1":
			want = []interface{}{"g1", float64(c.Expect.G1), []interface{}{1.0, 2.0}}
		case "f1g1":
			want = []interface{}{"g1", float64(c.Expect.G1), []interface{}{f1(1.0), f1(2.0)}}
		}
		if len(r.Vals) != 1 {
			w.viol(prop, "config-result-differs", text, snap(doc), fmt.Sprintf("Config calls:%s: got %s, want one result %s", desc, r, snap(want)), c.Probe, inner)
			return
		}
		got := r.Vals[0]
		a, isAcc := got.(jsonpath.Accessor)
		if isAcc != c.Expect.Acc {
			w.viol(primary(P, "C12", "C19"), "accessor-mode-not-what-parse-was-given", text, snap(doc), fmt.Sprintf("Config calls:%s: accessor mode was %v when Parse was called, the result is %T", desc, c.Expect.Acc, got), c.Probe, inner)
			return
		}
		if isAcc {
			got = a.Get()
		}
		if snap(got) != snap(want) {
			w.viol(prop, "config-result-differs", text, snap(doc), fmt.Sprintf("Config calls:%s: got %s, the functions registered when Parse was called give %s", desc, snap(got), snap(want)), c.Probe, inner)
		}
	}
}
