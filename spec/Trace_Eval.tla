----------------------------- MODULE Trace_Eval -----------------------------
(* Direction B for evaluation (C01, C03, C15, C10 ...): a record is          *)
(* (path TEXT, document, what the real library returned).  The text is       *)
(* parsed by Peg + Actions (so the binding does not depend on any renderer), *)
(* converted to the AST of module Semantics, evaluated by Select / Failure,  *)
(* and the recorded result must be the one the specification admits.         *)
EXTENDS Actions, Json, TLC
CONSTANTS TraceFile, ChunkSize

Trace == ndJsonDeserialize(TraceFile)
NChunks == (Len(Trace) + ChunkSize - 1) \div ChunkSize

VARIABLES c, l
Init == c = 0 /\ l = 0
Next == \/ c = 0 /\ l = 0 /\ c' \in 1..NChunks /\ l' = 0
        \/ c > 0 /\ l = 0 /\ c' = c /\ l' \in ((c - 1) * ChunkSize + 1)..(IF c * ChunkSize < Len(Trace) THEN c * ChunkSize ELSE Len(Trace))
Spec == Init /\ [][Next]_<<c, l>>

\* regex with a recorded match table (regexp semantics is Go's, taken from the record)
TabMatch(tab, s) == \E i \in 1..Len(tab.strs) : tab.strs[i] = s /\ tab.ms[i]

RECURSIVE SortedDoc(_)
SortedDoc(x) == /\ IsObj(x) => SortedMembers(x.o)
                /\ \A i \in 1..Len(Kids(x)) : SortedDoc(Kids(x)[i])

AllWild(s) == s.k = "multi" /\ \A j \in 1..Len(s.ids) : s.ids[j].k = "wild"
AnyWild(s) == s.k = "multi" /\ \E j \in 1..Len(s.ids) : s.ids[j].k = "wild"

\* is the recorded error one of the admissible ones?  (5.7(b), (c))
ErrAdmitted(res, errs, p, texts) ==
  \E e \in errs :
     /\ e.e = res.e
     /\ \/ res.path = texts[e.i]
        \/ e.e = "mne" /\ e.i <= Len(p.steps) /\ AnyWild(p.steps[e.i]) /\ res.path = <<42>>
     /\ e.e = "tu" => /\ (res.exp = e.exp \/ (e.i <= Len(p.steps) /\ AllWild(p.steps[e.i]) /\ e.exp = "object" /\ res.exp = "object/array"))
                      /\ res.found = e.found[1]

Verdict(rec) ==
  LET full == ParseFull(rec.s, rec.cfg, rec.tabs)
      m == full.out IN
  IF m.cls # "ok" THEN "model-rejects-path"
  ELSE IF ~SortedDoc(rec.doc) THEN "recorder-key-order"
  ELSE LET pn == m.ast
           p == CleanPath(pn)
           texts == ReportedTexts(pn) IN
       IF ~ExactSteps(pn.steps) THEN "skip-inexact-literal"
       ELSE IF ~Determined(p, rec.doc) THEN "skip-undetermined"
       ELSE LET r == Response(p, rec.doc) IN
            IF r.ok # rec.res.ok THEN (IF r.ok THEN "expected-values-got-error" ELSE "expected-failure-got-values")
            ELSE IF r.ok THEN (IF [j \in 1..Len(r.vals) |-> r.vals[j].v] = rec.res.vals THEN "ok" ELSE "values-differ")
            ELSE IF ErrAdmitted(rec.res, r.errs, p, texts) THEN "ok" ELSE "error-not-admissible"

\* C14 on recorded evaluations: per function, the recorded sequence of arguments is the predicted one
LogOf(log, n) == SelectSeq(log, LAMBDA x : x.fn = n)
LogAgrees(rec, p, r) ==
  LET names == {r.log[i].fn : i \in 1..Len(r.log)} \cup {rec.log[i].fn : i \in 1..Len(rec.log)} IN
  \A n \in names : [i \in 1..Len(LogOf(r.log, n)) |-> LogOf(r.log, n)[i].arg] = [i \in 1..Len(LogOf(rec.log, n)) |-> LogOf(rec.log, n)[i].arg]
LogVerdict(rec) ==
  LET full == ParseFull(rec.s, rec.cfg, rec.tabs)  m == full.out IN
  IF m.cls # "ok" THEN "ok"
  ELSE LET pn == m.ast  p == CleanPath(pn) IN
       IF ~ExactSteps(pn.steps) \/ ~Determined(p, rec.doc) \/ ~FilterLogDet(p) THEN "ok"
       ELSE IF LogAgrees(rec, p, Response(p, rec.doc)) THEN "ok" ELSE "call-log-differs"

Check(rec) ==
  LET v == Verdict(rec)
      lv == IF v = "ok" THEN LogVerdict(rec) ELSE "ok" IN
  IF v = "ok" /\ lv = "ok" THEN TRUE
  ELSE PrintT(ToJson([verdict |-> IF v # "ok" THEN v ELSE lv, id |-> rec.id]))
Inv == l > 0 => Check(Trace[l])
=============================================================================
