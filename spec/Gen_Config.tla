------------------------------ MODULE Gen_Config ------------------------------
(* The Config object as a state machine (C19 "Parse depends only on the path    *)
(* and the Config given to that call ... the returned function keeps the        *)
(* functions it was parsed with even if the Config is modified afterwards";     *)
(* C12 accessor mode is a property of the Config, whenever it was switched on). *)
(*                                                                              *)
(*   cfg    what the caller's Config value means: filter functions and          *)
(*          aggregate functions by name -> implementation, accessor flag        *)
(*   snap   what Parse saw (the meaning of cfg at the moment of the call)       *)
(*   ops    the calls made so far, in order                                     *)
(*                                                                              *)
(* Actions: SetFilterFunction(n, impl), SetAggregateFunction(n, impl)           *)
(* (registering a name again replaces the implementation), SetAccessorMode,     *)
(* Parse(path) once, and then MORE Set* calls on the same Config value.         *)
(* The meaning of cfg is a function of the LAST write per name and of whether   *)
(* SetAccessorMode was ever called: the order of the calls is immaterial        *)
(* (LawOrderFree, checked on the model) -- and every behaviour is replayed on a *)
(* real Config, a real Parse and a real call, where the outcome must be the one *)
(* demanded by snap: not by what cfg became later, not by the order.            *)
EXTENDS Integers, Sequences, FiniteSets, TLC, Json
CONSTANT MaxOps

FNames == {"f1", "f2"}        \* filter function names the probe paths use
ANames == {"g1"}
Impls == {1, 2}
Probes == {"name", "f1", "f2", "g1", "f1g1"}     \* $.a   $.a.f1()   $.a.f2()   $.*.g1()   $.*.f1().g1()
Needs(p) == CASE p = "name" -> {} [] p = "f1" -> {"f1"} [] p = "f2" -> {"f2"} [] p = "g1" -> {"g1"} [] p = "f1g1" -> {"f1", "g1"}

NoCfg == [ff |-> [n \in {} |-> 0], af |-> [n \in {} |-> 0], acc |-> FALSE]
VARIABLES cfg, snap, probe, ops
vars == <<cfg, snap, probe, ops>>
Init == cfg = NoCfg /\ snap = <<>> /\ probe = "none" /\ ops = <<>>

Put(f, n, i) == [m \in DOMAIN f \cup {n} |-> IF m = n THEN i ELSE f[m]]
SetFF(n, i) == cfg' = [cfg EXCEPT !.ff = Put(cfg.ff, n, i)] /\ ops' = Append(ops, [op |-> "ff", n |-> n, i |-> i]) /\ UNCHANGED <<snap, probe>>
SetAF(n, i) == cfg' = [cfg EXCEPT !.af = Put(cfg.af, n, i)] /\ ops' = Append(ops, [op |-> "af", n |-> n, i |-> i]) /\ UNCHANGED <<snap, probe>>
SetAcc == cfg' = [cfg EXCEPT !.acc = TRUE] /\ ops' = Append(ops, [op |-> "acc", n |-> "", i |-> 0]) /\ UNCHANGED <<snap, probe>>
DoParse(p) == snap = <<>> /\ snap' = <<cfg>> /\ probe' = p /\ ops' = Append(ops, [op |-> "parse", n |-> p, i |-> 0]) /\ UNCHANGED cfg
Next == /\ Len(ops) < MaxOps
        /\ \/ \E n \in FNames, i \in Impls : SetFF(n, i)
           \/ \E n \in ANames, i \in Impls : SetAF(n, i)
           \/ SetAcc
           \/ \E p \in Probes : DoParse(p)
Spec == Init /\ [][Next]_vars

\* ---- what the parsed function must do, as a function of snap alone
Known(s) == DOMAIN s.ff \cup DOMAIN s.af
Missing(s, p) == Needs(p) \ Known(s)
Expect == IF snap = <<>> THEN [parsed |-> FALSE]
          ELSE LET s == snap[1] IN
               IF Missing(s, probe) # {} THEN [parsed |-> TRUE, ok |-> FALSE, acc |-> s.acc, f1 |-> 0, f2 |-> 0, g1 |-> 0]
               ELSE [parsed |-> TRUE, ok |-> TRUE, acc |-> s.acc,
                     f1 |-> IF "f1" \in Needs(probe) THEN s.ff["f1"] ELSE 0,
                     f2 |-> IF "f2" \in Needs(probe) THEN s.ff["f2"] ELSE 0,
                     g1 |-> IF "g1" \in Needs(probe) THEN s.af["g1"] ELSE 0]

\* ---- laws of the model
\* the meaning of a Config is the last write per name and "accessor mode was requested", whatever the order
LastWrite(kind, n, upto) == LET idx == {k \in 1..upto : ops[k].op = kind /\ ops[k].n = n} IN
                            IF idx = {} THEN 0 ELSE ops[CHOOSE k \in idx : \A j \in idx : j <= k].i
LawOrderFree == /\ \A n \in FNames : (n \in DOMAIN cfg.ff => cfg.ff[n] = LastWrite("ff", n, Len(ops))) /\ (n \notin DOMAIN cfg.ff => LastWrite("ff", n, Len(ops)) = 0)
                /\ \A n \in ANames : (n \in DOMAIN cfg.af => cfg.af[n] = LastWrite("af", n, Len(ops))) /\ (n \notin DOMAIN cfg.af => LastWrite("af", n, Len(ops)) = 0)
                /\ cfg.acc = (\E k \in 1..Len(ops) : ops[k].op = "acc")
\* the snapshot never changes after Parse
LawSnapshotFrozen == [][snap # <<>> => snap' = snap]_vars

Emit == snap # <<>> => PrintT(ToJson([fam |-> "config", ops |-> ops, probe |-> probe, expect |-> Expect]))
=============================================================================
