------------------------------- MODULE Render -------------------------------
(* AST -> text (code points) under a spelling vector.  The grammar declares  *)
(* these freedoms insignificant (C18); Render is the one place that knows    *)
(* them, and RoundTrip (Gen_Parse) ties it to the grammar.                   *)
(*                                                                           *)
(* sp == [q    : 39 | 34     quote used for names and string literals        *)
(*        brk  : BOOLEAN     ['name'] / [*] instead of .name / .*            *)
(*        spc  : 0, 1, 2     that many spaces at every optional-space position; *)
(*               3 / 4       two spaces after / before the whole path only     *)
(*        omit : BOOLEAN     drop the leading `$` when the grammar allows it *)
(*        plus : BOOLEAN     verbose numerals: +01, -01, 1:2: , +1.0         *)
(*        up   : BOOLEAN     True / FALSE / NULL spellings ]                 *)
(*                                                                           *)
(* StepTexts gives the text the library reports in `path=` for each step.    *)
EXTENDS Semantics

Canon == [q |-> 39, brk |-> FALSE, spc |-> 0, omit |-> FALSE, plus |-> FALSE, up |-> FALSE]

SP(sp) == IF sp.spc <= 2 THEN [i \in 1..sp.spc |-> 32] ELSE <<>>
SPLead(sp) == IF sp.spc = 4 THEN <<32, 32>> ELSE SP(sp)
SPTrail(sp) == IF sp.spc = 3 THEN <<32, 32>> ELSE SP(sp)

RECURSIVE Digits(_)
Digits(n) == IF n < 10 THEN <<48 + n>> ELSE Digits(n \div 10) \o <<48 + (n % 10)>>

\* stand-ins for magnitudes TLC's 32-bit integers cannot hold (justified by the saturation lemma,
\* Slice_apalache.tla): any bound beyond +-(len+1) behaves like +-(len+1)
BigP31 == 1000001    \* rendered 2147483648
BigP63 == 1000002    \* rendered 9223372036854775807
BigM31 == -1000001   \* rendered -2147483649
BigM63a == -1000002  \* rendered -9223372036854775807
BigM63 == -1000003   \* rendered -9223372036854775808
IsBig(n) == n >= 1000001 \/ n <= -1000001
BigText(n) ==
  CASE n = BigP31  -> <<50,49,52,55,52,56,51,54,52,56>>
    [] n = BigP63  -> <<57,50,50,51,51,55,50,48,51,54,56,53,52,55,55,53,56,48,55>>
    [] n = BigM31  -> <<45,50,49,52,55,52,56,51,54,52,57>>
    [] n = BigM63a -> <<45,57,50,50,51,51,55,50,48,51,54,56,53,52,55,55,53,56,48,55>>
    [] n = BigM63  -> <<45,57,50,50,51,51,55,50,48,51,54,56,53,52,55,55,53,56,48,56>>

IntText(n, sp) ==
  IF IsBig(n) THEN BigText(n)
  ELSE IF n < 0 THEN <<45>> \o (IF sp.plus THEN <<48>> ELSE <<>>) \o Digits(-n)
  ELSE (IF sp.plus THEN <<43, 48>> ELSE <<>>) \o Digits(n)

\* a number literal: n is the value times 1000
Frac3(m) == <<48 + (m \div 100), 48 + ((m \div 10) % 10), 48 + (m % 10)>>
RECURSIVE StripTrail(_)
StripTrail(d) == IF d # <<>> /\ d[Len(d)] = 48 THEN StripTrail(SubSeq(d, 1, Len(d) - 1)) ELSE d
NumText(n, sp) ==
  LET a == IF n < 0 THEN -n ELSE n
      fr == StripTrail(Frac3(a % 1000))
      body == Digits(a \div 1000) \o (IF fr = <<>> THEN (IF sp.plus THEN <<46, 48>> ELSE <<>>) ELSE <<46>> \o fr) IN
  (IF n < 0 THEN <<45>> ELSE IF sp.plus THEN <<43>> ELSE <<>>) \o body

HexD(d) == IF d < 10 THEN 48 + d ELSE 87 + d
U4(c) == <<92, 117, HexD(c \div 4096), HexD((c \div 256) % 16), HexD((c \div 16) % 16), HexD(c % 16)>>
\* bracket-notation key: JSON-style escaping with quote q
QuoteKey(n, q) ==
  <<q>> \o Flat([i \in 1..Len(n) |->
           IF n[i] = q \/ n[i] = 92 THEN <<92, n[i]>>
           ELSE IF n[i] < 32 THEN U4(n[i])
           ELSE <<n[i]>>]) \o <<q>>
\* the symbol characters of rule signsWithoutHyphenUnderscore
IsSign(c) == (c >= 32 /\ c <= 44) \/ c \in {46, 47} \/ (c >= 58 /\ c <= 64) \/ (c >= 91 /\ c <= 94) \/ c = 96 \/ (c >= 123 /\ c <= 126)
DotKey(n) == Flat([i \in 1..Len(n) |-> IF IsSign(n[i]) THEN <<92, n[i]>> ELSE <<n[i]>>])
\* string literal in a filter: only the quote and the backslash are escaped
StrLit(s, q) == <<q>> \o Flat([i \in 1..Len(s) |-> IF s[i] = q \/ s[i] = 92 THEN <<92, s[i]>> ELSE <<s[i]>>]) \o <<q>>

LitText(v, sp) ==
  CASE v.t = "null" -> IF sp.up THEN <<78, 85, 76, 76>> ELSE <<110, 117, 108, 108>>
    [] v.t = "bool" -> IF v.b THEN (IF sp.up THEN <<84, 114, 117, 101>> ELSE <<116, 114, 117, 101>>)
                       ELSE (IF sp.up THEN <<70, 65, 76, 83, 69>> ELSE <<102, 97, 108, 115, 101>>)
    [] v.t = "num" -> NumText(v.n, sp)
    [] v.t = "str" -> StrLit(v.s, sp.q)

ReText(re) ==
  CASE re = "a"    -> <<97>>
    [] re = "^a$"  -> <<94, 97, 36>>
    [] re = "^.*$" -> <<94, 46, 42, 36>>
    [] re = "b+"   -> <<98, 43>>

Join(parts, sep) == Flat([i \in 1..Len(parts) |-> IF i = 1 THEN parts[i] ELSE sep \o parts[i]])
Brk(inner, sp) == <<91>> \o SP(sp) \o inner \o SP(sp) \o <<93>>

SubText(s, sp) ==
  CASE s.k = "idx" -> IntText(s.n, sp)
    [] s.k = "star" -> <<42>>
    [] s.k = "slice" ->
         LET b(n, o) == IF o THEN <<>> ELSE IntText(n, sp)
             colon == SP(sp) \o <<58>> \o SP(sp) IN
         b(s.s, s.so) \o colon \o b(s.e, s.eo) \o
           (IF s.co THEN (IF sp.plus THEN colon ELSE <<>>) ELSE colon \o IntText(s.c, sp))

RECURSIVE QueryText(_, _), OperandText(_, _), StepText(_, _, _), StepsText(_, _, _), PathText(_, _)

IdText(id, sp) == IF id.k = "wild" THEN <<42>> ELSE QuoteKey(id.n, sp.q)

\* ctx: "dot" (ordinary child), "rec" (directly after `..`), "first" (first step, `$` omitted)
StepText(s, ctx, sp) ==
  LET comma == SP(sp) \o <<44>> \o SP(sp) IN
  CASE s.k = "name" -> IF sp.brk THEN Brk(QuoteKey(s.n, sp.q), sp)
                       ELSE (IF ctx = "dot" THEN <<46>> ELSE <<>>) \o DotKey(s.n)
    [] s.k = "wild" -> IF sp.brk THEN Brk(<<42>>, sp) ELSE (IF ctx = "dot" THEN <<46, 42>> ELSE <<42>>)
    [] s.k = "multi" -> Brk(Join([i \in 1..Len(s.ids) |-> IdText(s.ids[i], sp)], comma), sp)
    [] s.k = "union" -> Brk(Join([i \in 1..Len(s.subs) |-> SubText(s.subs[i], sp)], comma), sp)
    [] s.k = "filter" -> Brk(<<63, 40>> \o SP(sp) \o QueryText(s.q, sp) \o SP(sp) \o <<41>>, sp)
    [] s.k = "rec" -> <<46, 46>>

\* what the library reports as `path=` for an error at this step
ReportText(s, ctx, sp) ==
  IF s.k = "name" /\ ~sp.brk /\ ctx # "dot" THEN s.n      \* unescaped identifier, no dot
  ELSE StepText(s, ctx, sp)

Ctx(steps, i, first) == IF i > 1 /\ steps[i - 1].k = "rec" THEN "rec" ELSE IF i = 1 THEN first ELSE "dot"
StepsText(steps, first, sp) == Flat([i \in 1..Len(steps) |-> StepText(steps[i], Ctx(steps, i, first), sp)])
FuncText(f) == <<46>> \o f.n \o <<40, 41>>
FuncsText(fs) == Flat([i \in 1..Len(fs) |-> FuncText(fs[i])])

OperandText(o, sp) ==
  IF o.k = "lit" THEN LitText(o.v, sp)
  ELSE (IF o.root = "$" THEN <<36>> ELSE <<64>>) \o StepsText(o.steps, "dot", sp) \o FuncsText(o.funcs)

QueryText(q, sp) ==
  CASE q.k = "exist" -> OperandText(q.p, sp)
    [] q.k = "not"   -> <<33>> \o SP(sp) \o OperandText(q.p, sp)
    [] q.k = "and"   -> QueryText(q.l, sp) \o SP(sp) \o <<38, 38>> \o SP(sp) \o QueryText(q.r, sp)
    [] q.k = "or"    -> QueryText(q.l, sp) \o SP(sp) \o <<124, 124>> \o SP(sp) \o QueryText(q.r, sp)
    [] q.k = "paren" -> <<40>> \o SP(sp) \o QueryText(q.q, sp) \o SP(sp) \o <<41>>
    [] q.k = "cmp"   -> LET op == CASE q.op = "==" -> <<61, 61>> [] q.op = "!=" -> <<33, 61>> [] q.op = "<" -> <<60>>
                                    [] q.op = "<=" -> <<60, 61>> [] q.op = ">" -> <<62>> [] q.op = ">=" -> <<62, 61>> IN
                        OperandText(q.l, sp) \o SP(sp) \o op \o SP(sp) \o OperandText(q.r, sp)
    [] q.k = "re"    -> OperandText(q.l, sp) \o SP(sp) \o <<61, 126>> \o SP(sp) \o <<47>> \o ReText(q.re) \o <<47>>

\* the grammar lets `$` be dropped only before a name, `*` or a bracket
CanOmit(p) == p.steps # <<>> /\ p.steps[1].k # "rec"
PathText(p, sp) ==
  LET om == sp.omit /\ CanOmit(p) /\ p.root = "$" IN
  SPLead(sp) \o (IF om THEN <<>> ELSE IF p.root = "$" THEN <<36>> ELSE <<64>>)
         \o StepsText(p.steps, IF om THEN "first" ELSE "dot", sp) \o FuncsText(p.funcs) \o SPTrail(sp)

\* texts reported for steps 1..n and then for the functions
StepTexts(p, sp) ==
  LET om == sp.omit /\ CanOmit(p) /\ p.root = "$" IN
  [i \in 1..Len(p.steps) |-> ReportText(p.steps[i], Ctx(p.steps, i, IF om THEN "first" ELSE "dot"), sp)]
    \o [i \in 1..Len(p.funcs) |-> FuncText(p.funcs[i])]
=============================================================================
