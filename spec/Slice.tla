------------------------------- MODULE Slice -------------------------------
(* C11.  PySlice / IndexOf (module Semantics) are the declarative definition *)
(* ("what a Python slice selects").  MechSlice is the mechanism the library  *)
(* uses: two implementations chosen by the sign of the step, bounds          *)
(* normalised by adding len to negatives and clamping, then a counting loop  *)
(* with a guard that keeps the loop variable inside the array.               *)
EXTENDS Semantics

NormPos(v, n) == LET w == IF v < 0 THEN Max2(v + n, 0) ELSE v IN IF w > n THEN n ELSE w
NormNeg(v, n) == LET w == IF v < 0 THEN Max2(v + n, -1) ELSE v IN IF w > n - 1 THEN n - 1 ELSE w

RECURSIVE LoopUp(_, _, _, _), LoopDown(_, _, _, _)
\* fuel = remaining capacity of the result buffer (len): the loop can never write more
LoopUp(i, end, st, fuel) ==
  IF ~(i < end) THEN <<>>
  ELSE IF fuel = 0 THEN <<-999>>                       \* would write past the buffer: a bug marker
  ELSE <<i>> \o (IF st >= end - i THEN <<>> ELSE LoopUp(i + st, end, st, fuel - 1))
LoopDown(i, end, st, fuel) ==
  IF ~(i > end) THEN <<>>
  ELSE IF fuel = 0 THEN <<-999>>
  ELSE <<i>> \o LoopDown(i + st, end, st, fuel - 1)

MechSlice(sub, n) ==
  LET st == IF sub.co THEN 1 ELSE sub.c IN
  IF st >= 0 THEN
       LET a == NormPos(IF sub.so THEN 0 ELSE sub.s, n)
           b == NormPos(IF sub.eo THEN n ELSE sub.e, n) IN
       IF st > 0 THEN LoopUp(a, b, st, n) ELSE <<>>
  ELSE LET a == NormNeg(IF sub.so THEN n - 1 ELSE sub.s, n)
           b == NormNeg(IF sub.eo THEN -n - 1 ELSE sub.e, n) IN
       LoopDown(a, b, st, n)

MechIsPython(sub, n) == MechSlice(sub, n) = PySlice(sub, n)
InRange(sub, n) == \A i \in 1..Len(PySlice(sub, n)) : PySlice(sub, n)[i] >= 0 /\ PySlice(sub, n)[i] < n
\* step 0 selects nothing; a slice never selects an index twice; positive steps ascend, negative descend
Monotone(sub, n) ==
  LET r == PySlice(sub, n)  st == IF sub.co THEN 1 ELSE sub.c IN
  /\ (st = 0 => r = <<>>)
  /\ \A i \in 1..(Len(r) - 1) : IF st > 0 THEN r[i] < r[i + 1] ELSE r[i] > r[i + 1]
=============================================================================
