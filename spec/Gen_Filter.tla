------------------------------ MODULE Gen_Filter ------------------------------
(* C09 / C10: one filter step over the members of one container.               *)
(* The document is {"l": container, "x": ..., "y": ...}; the path `$.l[?(q)]`.  *)
(* Members are pairwise distinct and drawn from values that hit, miss or       *)
(* mistype the operand paths @.a / @.b / @; `$.x` and `$.y` are present with    *)
(* each kind of value or absent.  Queries: every atom (existence, all six      *)
(* operators x operand kinds x both orders, every literal type, regex), and     *)
(* combinations with && || ( ) up to QDepth.                                     *)
(* The replayer checks the Boolean-algebra and duality laws on the real         *)
(* selections (oracle-free) and the selection itself against Holds (L1) when    *)
(* determined; C10: identical selections under both number decodings.           *)
EXTENDS GenCommon
CONSTANTS MaxMembers, QDepth, Kinds,    \* Kinds: "arr" | "both"
          RootSet                      \* "all" | "two" | "deep" (path == path between containers and zero values)

N15 == Num(1500)
\* "deep": deep equality.  Empty and one-element containers of both kinds and the zero value of every type, on
\* both sides of `path == path`: [] is not {}, neither is 0, "", false or null, [1] is not {"b":1}.
AE0 == Arr(<<>>)   OE0 == Obj(<<>>)   A1 == Arr(<<N1>>)   B1 == Obj(<<KV(kb, N1)>>)   Z0 == Num(0)   S0 == Str(<<>>)   F0 == Bool(FALSE)
DeepVals == {AE0, OE0, A1, B1, Z0, S0, F0, Null, Arr(<<AE0>>), Arr(<<OE0>>)}
MemberPoolStd == { Oa(N1), Oa(N2), Oa(N15), Ob(N1), Oa(Sa), Oa(Null), Oa(Bool(TRUE)), Oab(N1, N2), Oab(N2, N2), N1, Sa, Null, Oa(Arr(<<N1>>)) }
MemberPool == IF RootSet = "deep" THEN {Oa(v) : v \in DeepVals} \cup {AE0, OE0, Ob(N1)} ELSE MemberPoolStd
RootVals == IF RootSet = "deep" THEN {[x |-> <<>>, y |-> <<>>]} \cup {[x |-> <<v>>, y |-> <<AE0>>] : v \in DeepVals}
            ELSE IF RootSet = "two" THEN { [x |-> <<>>, y |-> <<>>], [x |-> <<N2>>, y |-> <<N1>>] }
            ELSE { [x |-> <<>>, y |-> <<>>], [x |-> <<N1>>, y |-> <<>>], [x |-> <<N2>>, y |-> <<N1>>], [x |-> <<Sa>>, y |-> <<N2>>] }

Pa == Cur(<<Nm(ka)>>)   Pb == Cur(<<Nm(kb)>>)   Px == Root(<<Nm(<<120>>)>>)   Py == Root(<<Nm(<<121>>)>>)
NumOps == {"<", "<=", ">", ">="}
EqOps == {"==", "!="}
NumPairs == { <<Pa, Lit(N1)>>, <<Lit(N1), Pa>>, <<Pa, Lit(N15)>>, <<Pa, Px>>, <<Px, Pa>>, <<Px, Lit(N1)>>, <<Lit(N2), Px>>, <<Lit(N1), Lit(N2)>>,
              <<Px, Py>>, <<Cur(<<>>), Lit(N1)>>, <<Pa, Pb>> }
EqPairs == NumPairs \cup { <<Pa, Lit(Sa)>>, <<Lit(Sa), Pa>>, <<Pa, Lit(Bool(TRUE))>>, <<Pa, Lit(Null)>>, <<Lit(Null), Pa>>, <<Pa, Lit(N15)>>,
                           <<Cur(<<>>), Lit(Sa)>>, <<Cur(<<>>), Lit(Null)>>, <<Px, Lit(Sa)>>, <<Pa, Py>>, <<Py, Pb>>,
                           \* a string literal that spells a number of the document, and a boolean-like one
                           <<Pa, Lit(Str(<<49>>))>>, <<Lit(Str(<<49, 46, 53>>)), Pa>>, <<Cur(<<>>), Lit(Str(<<49>>))>>, <<Px, Lit(Str(<<50>>))>>, <<Pa, Lit(Str(<<116, 114, 117, 101>>))>> }
TwoCur(l, r) == l.k = "path" /\ r.k = "path" /\ l.root = "@" /\ r.root = "@"
Cmps == {Cmp(op, pr[1], pr[2]) : op \in NumOps, pr \in {pp \in NumPairs : ~TwoCur(pp[1], pp[2])}}
        \cup {Cmp(op, pr[1], pr[2]) : op \in EqOps, pr \in {pp \in EqPairs : ~TwoCur(pp[1], pp[2])}}
Exists == { Exist(Pa), Exist(Pb), Exist(Cur(<<>>)), Exist(Px), Exist(Py), Exist(Root(<<>>)),
            NotP(Pa), NotP(Pb), NotP(Px), NotP(Py), NotP(Root(<<>>)), Exist(Cur(<<Nm(ka), Un(<<Idx(0)>>)>>)) }
Regexes == { Re(Pa, "a"), Re(Cur(<<>>), "^a$"), Re(Px, "a"), Re(Pa, "^.*$"), Re(Cur(<<>>), "^.*$"), Re(Px, "^.*$") }
Atoms == Cmps \cup Exists \cup Regexes
\* operands of the compound queries: one representative per behaviour class
Core == { Exist(Pa), NotP(Pa), Exist(Pb), Exist(Px), NotP(Py), Cmp("==", Pa, Lit(N1)), Cmp("!=", Pa, Lit(N1)), Cmp("<", Pa, Lit(N2)),
          Cmp("==", Pa, Px), Cmp("!=", Pa, Py), Cmp("==", Px, Lit(N1)), Cmp(">", Px, Pa), Re(Pa, "a"), Cmp("==", Lit(N1), Lit(N1)), Cmp("==", Lit(N1), Lit(N2)) }
Pairs == {And(a, b) : a \in Core, b \in Core} \cup {Or(a, b) : a \in Core, b \in Core}
Small == { Exist(Pa), NotP(Pb), Cmp("==", Pa, Lit(N1)), Cmp("!=", Pa, Py), Exist(Px) }
Triples == {And(Paren(Or(a, b)), c) : a \in Small, b \in Small, c \in Small} \cup {Or(And(a, b), c) : a \in Small, b \in Small, c \in Small}
           \cup {Or(a, Paren(And(b, c))) : a \in Small, b \in Small, c \in Small} \cup {And(And(a, b), c) : a \in Small, b \in Small, c \in Small}
DeepAtoms == {Cmp(op, pr[1], pr[2]) : op \in EqOps, pr \in {<<Pa, Px>>, <<Px, Pa>>, <<Cur(<<>>), Px>>, <<Px, Cur(<<>>)>>, <<Pa, Py>>, <<Px, Py>>, <<Py, Px>>}}
Queries == IF RootSet = "deep" THEN DeepAtoms ELSE Atoms \cup (IF QDepth >= 2 THEN Pairs ELSE {}) \cup (IF QDepth >= 3 THEN Triples ELSE {})

\* injective member sequences
Seqs(n) == {s \in [1..n -> MemberPool] : \A i \in 1..n, j \in 1..n : i # j => s[i] # s[j]}
MemberSeqs == UNION {Seqs(n) : n \in 0..MaxMembers}
k1 == <<107, 49>>   k2 == <<107, 50>>   k3 == <<107, 51>>   k4 == <<107, 52>>
KeysOf == <<k1, k2, k3, k4>>
AsObj(s) == Obj([i \in 1..Len(s) |-> KV(KeysOf[i], s[i])])
kl == <<108>>  kxx == <<120>>  kyy == <<121>>
MkDoc(cont, rv) == Obj(<<KV(kl, cont)>> \o (IF rv.x = <<>> THEN <<>> ELSE <<KV(kxx, rv.x[1])>>) \o (IF rv.y = <<>> THEN <<>> ELSE <<KV(kyy, rv.y[1])>>))

VARIABLES doc, q
vars == <<doc, q>>
NoQ == Exist(Root(<<>>))
Init == doc = Null /\ q = NoQ
Next == \/ /\ doc = Null /\ q' = q
           /\ \E s \in MemberSeqs, rv \in RootVals :
                 \/ doc' = MkDoc(Arr(s), rv)
                 \/ Kinds = "both" /\ doc' = MkDoc(AsObj(s), rv)
        \/ doc # Null /\ q = NoQ /\ doc' = doc /\ q' \in (Queries \ {NoQ})
Spec == Init /\ [][Next]_vars

ThePath == Path("$", <<Nm(kl), Flt(q)>>, <<>>)
Members == Kids(GetKey(doc, kl))
Sel(qq) == {i \in 1..Len(Members) : Holds(qq, doc, Members[i])}
\* the laws of C09 on the reference semantics itself
LawBoolean == (doc # Null /\ q.k \in {"and", "or"}) =>
                 Sel(q) = (IF q.k = "and" THEN Sel(q.l) \cap Sel(q.r) ELSE Sel(q.l) \cup Sel(q.r))
LawNe == (doc # Null /\ q.k = "cmp" /\ q.op = "!=") => Sel(q) = (1..Len(Members)) \ Sel(Cmp("==", q.l, q.r))
MirrorOp(op) == CASE op = "<" -> ">" [] op = "<=" -> ">=" [] op = ">" -> "<" [] op = ">=" -> "<=" [] OTHER -> op
LawMirror == (doc # Null /\ q.k = "cmp") => Sel(q) = Sel(Cmp(MirrorOp(q.op), q.r, q.l))
\* stated for comparisons against a number literal only (between two absent paths `==` holds but `<=` does not)
LawLe == (doc # Null /\ q.k = "cmp" /\ q.op \in {"<=", ">="} /\ (q.l.k = "lit" \/ q.r.k = "lit")) =>
            Sel(q) = Sel(Cmp(IF q.op = "<=" THEN "<" ELSE ">", q.l, q.r)) \cup Sel(Cmp("==", q.l, q.r))
\* C10: type strictness of the reference semantics: a literal only ever matches members of its own type
LawTypeStrict == (doc # Null /\ q.k = "cmp" /\ q.r.k = "lit" /\ q.l.k = "path" /\ q.op # "!=") =>
                    \A i \in Sel(q) : OpVal(q.l, doc, Members[i]).v.t = q.r.v.t

Emit == (doc # Null /\ q # NoQ) => EmitCase(Case("filter", ThePath, doc, <<Canon>>))
=============================================================================
