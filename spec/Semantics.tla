----------------------------- MODULE Semantics -----------------------------
(* L1: the reference semantics of a parsed path -- "what must be true".     *)
(*                                                                          *)
(* A path is [root, steps, funcs]; see PathAst below for the constructors.  *)
(* Select gives, for a path and a document, the ordered sequence of         *)
(* [v, loc, set] triples (value, location in the document, settable) and    *)
(* the set of failures met on branches that produced nothing.  Response     *)
(* turns that into what the API must return: the values, or one of the      *)
(* admissible errors (C15).  Holds is plain per-member Boolean logic.       *)
EXTENDS JsonValue

\* ------------------------------------------------------------------ PathAst
Path(root, steps, funcs) == [k |-> "path", root |-> root, steps |-> steps, funcs |-> funcs]
Nm(n)      == [k |-> "name", n |-> n]
Wild       == [k |-> "wild"]
Multi(ids) == [k |-> "multi", ids |-> ids]          \* ids: sequence of Nm(..) / Wild
Rec        == [k |-> "rec"]                          \* must be followed by name/wild/multi/union/filter
Un(subs)   == [k |-> "union", subs |-> subs]
Idx(n)     == [k |-> "idx", n |-> n]
Star       == [k |-> "star"]
\* slice with start s, end e, step c and their "omitted" flags
Sl(s, so, e, eo, c, co) == [k |-> "slice", s |-> s, so |-> so, e |-> e, eo |-> eo, c |-> c, co |-> co]
Flt(q)     == [k |-> "filter", q |-> q]
FF(n)      == [k |-> "ff", n |-> n]                 \* filter function, n = name as code points
AF(n)      == [k |-> "af", n |-> n]                 \* aggregate function
\* queries
Exist(p)   == [k |-> "exist", p |-> p]
NotP(p)    == [k |-> "not", p |-> p]
And(l, r)  == [k |-> "and", l |-> l, r |-> r]
Or(l, r)   == [k |-> "or", l |-> l, r |-> r]
Paren(q)   == [k |-> "paren", q |-> q]
Cmp(op, l, r) == [k |-> "cmp", op |-> op, l |-> l, r |-> r]   \* op in == != < <= > >=
Re(l, re)  == [k |-> "re", l |-> l, re |-> re]                \* l =~ /regex re/
Lit(v)     == [k |-> "lit", v |-> v]

\* value-group-ness as the README defines it
SubVG(s) == s.k \in {"slice", "star"}
StepVG(s) == CASE s.k \in {"wild", "multi", "rec", "filter"} -> TRUE
               [] s.k = "union" -> Len(s.subs) > 1 \/ SubVG(s.subs[1])
               [] OTHER -> FALSE
StepsVG(steps) == \E i \in 1..Len(steps) : StepVG(steps[i])
\* an aggregate function turns any path into a single-valued one
PathVG(p) == StepsVG(p.steps) /\ ~\E i \in 1..Len(p.funcs) : p.funcs[i].k = "af"

\* ------------------------------------------------------------------ slices
Min2(a, b) == IF a < b THEN a ELSE b
Max2(a, b) == IF a > b THEN a ELSE b
RECURSIVE UpFrom(_, _, _), DownFrom(_, _, _)
UpFrom(i, hi, st) == IF i < hi THEN <<i>> \o UpFrom(i + st, hi, st) ELSE <<>>
DownFrom(i, lo, st) == IF i > lo THEN <<i>> \o DownFrom(i + st, lo, st) ELSE <<>>
\* the Python definition: indices (0-based) selected by [s:e:c] on a sequence of length n
PySlice(sub, n) ==
  LET st == IF sub.co THEN 1 ELSE sub.c IN
  IF st = 0 THEN <<>>
  ELSE IF st > 0 THEN
    LET lo == IF sub.so THEN 0 ELSE IF sub.s < 0 THEN Max2(sub.s + n, 0) ELSE Min2(sub.s, n)
        hi == IF sub.eo THEN n ELSE IF sub.e < 0 THEN Max2(sub.e + n, 0) ELSE Min2(sub.e, n)
    IN UpFrom(lo, hi, st)
  ELSE
    LET hi == IF sub.so THEN n - 1 ELSE IF sub.s < 0 THEN Max2(sub.s + n, -1) ELSE Min2(sub.s, n - 1)
        lo == IF sub.eo THEN -1 ELSE IF sub.e < 0 THEN Max2(sub.e + n, -1) ELSE Min2(sub.e, n - 1)
    IN DownFrom(hi, lo, st)
IndexOf(m, n) == LET i == IF m < 0 THEN m + n ELSE m IN IF i >= 0 /\ i < n THEN <<i>> ELSE <<>>
SubIdx(sub, n) ==
  CASE sub.k = "idx" -> IndexOf(sub.n, n)
    [] sub.k = "star" -> [i \in 1..n |-> i - 1]
    [] sub.k = "slice" -> PySlice(sub, n)

\* ------------------------------------------------------------------ user functions (model-defined, total)
\* names are code points; the harness registers Go functions with exactly this meaning
FnName(s) == s
Fn_f1 == <<102, 49>>      Fn_f2 == <<102, 50>>      Fn_f3 == <<102, 51>>
Fn_fid == <<102, 105, 100>>
Fn_fodd == <<102, 111, 100, 100>>
Fn_ferr == <<102, 101, 114, 114>>
Fn_g1 == <<103, 49>>      Fn_g2 == <<103, 50>>
Fn_gcnt == <<103, 99, 110, 116>>
Fn_gerr == <<103, 101, 114, 114>>
Fn_gid == <<103, 105, 100>>     \* returns the list it was given, the very same one (the harness does not copy it)
Fn_fprobe == <<102, 112, 114, 111, 98, 101>>   \* identity; the harness uses its calls to look at the document DURING a retrieval (C04)
FFNames == {Fn_f1, Fn_f2, Fn_f3, Fn_fid, Fn_fodd, Fn_ferr, Fn_fprobe}
AFNames == {Fn_g1, Fn_g2, Fn_gcnt, Fn_gerr, Fn_gid}
OkV(v) == [ok |-> TRUE, v |-> v]
FailV == [ok |-> FALSE, v |-> Null]
ApplyFF(n, v) ==
  CASE n = Fn_ferr -> FailV
    [] n = Fn_fodd -> IF v.t = "num" /\ (v.n \div 1000) % 2 = 1 THEN FailV ELSE OkV(Arr(<<Str(n), v>>))
    [] n \in {Fn_fid, Fn_fprobe} -> OkV(v)
    [] OTHER -> OkV(Arr(<<Str(n), v>>))
ApplyAF(n, vs) ==
  CASE n = Fn_gerr -> FailV
    [] n = Fn_gcnt -> OkV(Num(1000 * Len(vs)))
    [] n = Fn_gid -> OkV(Arr(vs))
    [] OTHER -> OkV(Arr(<<Str(n)>> \o vs))

\* ------------------------------------------------------------------ regular expressions (small fixed table)
\* the harness renders the same table; matching is decided here, not by Go's regexp
ReMatch(re, s) ==
  CASE re = "a"    -> \E i \in 1..Len(s) : s[i] = 97           \* /a/
    [] re = "^a$"  -> s = <<97>>                                \* /^a$/
    [] re = "^.*$" -> TRUE                                      \* /^.*$/   (no newlines in model strings)
    [] re = "b+"   -> \E i \in 1..Len(s) : s[i] = 98           \* /b+/

\* ------------------------------------------------------------------ results and failures
\* failure record: i = 1-based index of the step (functions continue the numbering),
\* e = "mne" | "tu" | "ff", exp = expected container kind, found = tag of the value found
Err(i, e, exp, x) == [i |-> i, e |-> e, exp |-> exp, found |-> x]
RV(v, loc, set) == [v |-> v, loc |-> loc, set |-> set]
R(vals, errs, log) == [vals |-> vals, errs |-> errs, log |-> log]
RECURSIVE UnionErrs(_)
UnionErrs(rs) == IF rs = <<>> THEN {} ELSE Head(rs).errs \cup UnionErrs(Tail(rs))
Combine(rs) == R(Flat(Map(LAMBDA r : r.vals, rs)), UnionErrs(rs), Flat(Map(LAMBDA r : r.log, rs)))

\* which container kinds the step after ".." navigates
RecMap(s)  == s.k \in {"name", "multi", "wild", "filter"}
RecList(s) == s.k \in {"union", "wild", "filter", "multi"}

FoundOf(x) == IF x.t = "opq" THEN <<"opq", x.ty>> ELSE <<x.t>>

CmpNum(op, a, b) == CASE op = "<" -> a < b [] op = "<=" -> a <= b [] op = ">" -> a > b [] op = ">=" -> a >= b

RECURSIVE Ev(_, _, _, _, _, _), Holds(_, _, _), OpVal(_, _, _), RunPath(_, _, _, _)

\* value of an operand for member m: [ok, v, log]
OpVal(o, root, m) ==
  IF o.k = "lit" THEN [ok |-> TRUE, v |-> o.v]
  ELSE LET r == RunPath(o, root, IF o.root = "$" THEN root ELSE m, <<>>) IN
       IF r.vals = <<>> THEN [ok |-> FALSE, v |-> Null] ELSE [ok |-> TRUE, v |-> r.vals[1].v]

EqHolds(l, r, root, m) ==
  LET a == OpVal(l, root, m)  b == OpVal(r, root, m) IN
  IF a.ok /\ b.ok THEN
     (IF l.k = "lit" \/ r.k = "lit"
      THEN a.v.t = b.v.t /\ a.v.t \in {"null", "bool", "num", "str"} /\ a.v = b.v   \* literal: type-strict scalar equality
      ELSE VEq(a.v, b.v))
  ELSE ~a.ok /\ ~b.ok /\ l.k # "lit" /\ r.k # "lit"

Holds(q, root, m) ==
  CASE q.k = "exist" -> OpVal(q.p, root, m).ok
    [] q.k = "not"   -> ~OpVal(q.p, root, m).ok
    [] q.k = "and"   -> Holds(q.l, root, m) /\ Holds(q.r, root, m)
    [] q.k = "or"    -> Holds(q.l, root, m) \/ Holds(q.r, root, m)
    [] q.k = "paren" -> Holds(q.q, root, m)
    [] q.k = "re"    -> LET a == OpVal(q.l, root, m) IN a.ok /\ a.v.t = "str" /\ ReMatch(q.re, a.v.s)
    [] q.k = "ret"   -> LET a == OpVal(q.l, root, m) IN          \* regex whose match table was recorded from Go's regexp
                        a.ok /\ a.v.t = "str" /\ \E i \in 1..Len(q.tab.strs) : q.tab.strs[i] = a.v.s /\ q.tab.ms[i]
    [] q.k = "cmp"   ->
        CASE q.op = "==" -> EqHolds(q.l, q.r, root, m)
          [] q.op = "!=" -> ~EqHolds(q.l, q.r, root, m)
          [] OTHER -> LET a == OpVal(q.l, root, m)  b == OpVal(q.r, root, m) IN
                      a.ok /\ b.ok /\ a.v.t = "num" /\ b.v.t = "num" /\ CmpNum(q.op, a.v.n, b.v.n)

RECURSIVE HasNonSelfEq(_)
HasNonSelfEq(x) == IF x.t = "opq" THEN ~x.seq ELSE \E i \in 1..Len(Kids(x)) : HasNonSelfEq(Kids(x)[i])

\* 5.7(a): `path == path` where for some member both operands are absent -- outcome left open by C10
RECURSIVE DetQ(_, _, _)
DetQ(q, root, ms) ==
  CASE q.k \in {"and", "or"} -> DetQ(q.l, root, ms) /\ DetQ(q.r, root, ms)
    [] q.k = "paren" -> DetQ(q.q, root, ms)
    [] q.k = "cmp" /\ q.op \in {"==", "!="} /\ q.l.k # "lit" /\ q.r.k # "lit" ->
         \A i \in 1..Len(ms) :
            LET a == OpVal(q.l, root, ms[i])  b == OpVal(q.r, root, ms[i]) IN
            /\ a.ok \/ b.ok
            \* reflect.DeepEqual short-cuts on identical slices/maps, so a container holding a value that is
            \* not DeepEqual to itself (a func) is equal to itself but not to a copy: left open (C20 says
            \* "deep equality", and nothing more, about such values)
            /\ (a.ok /\ b.ok) => ~(IsCont(a.v) /\ HasNonSelfEq(a.v)) /\ ~(IsCont(b.v) /\ HasNonSelfEq(b.v))
    [] OTHER -> TRUE

\* C14 inside filter operands.  For a query that is ONE atom (no && / ||), evaluating the filter on a container
\* evaluates a `$`-operand once and an `@`-operand once per member, in member order; with logical operators the
\* implementation may skip operands, so the log is then left open (5.7(d)).
OperandLog(o, root, ms) ==
  IF o.k = "lit" THEN <<>>
  ELSE IF o.root = "$" THEN RunPath(o, root, root, <<>>).log
  ELSE Flat([i \in 1..Len(ms) |-> RunPath(o, root, ms[i], <<>>).log])
AtomLogDet(q) == q.k \in {"exist", "not", "cmp", "re"}
AtomLog(q, root, ms) ==
  CASE q.k \in {"exist", "not"} -> OperandLog(q.p, root, ms)
    [] q.k = "re" -> OperandLog(q.l, root, ms)
    [] q.k = "cmp" -> OperandLog(q.l, root, ms) \o OperandLog(q.r, root, ms)
    [] OTHER -> <<>>

\* evaluate steps[i..] on cur (located at loc); `root` is the document for `$`-operands
Ev(steps, i, root, cur, loc, set) ==
  IF i > Len(steps) THEN R(<<RV(cur, loc, set)>>, {}, <<>>)
  ELSE LET s == steps[i]
           down(x) == Ev(steps, i + 1, root, x.v, x.loc, TRUE)
           mne == R(<<>>, {Err(i, "mne", "", <<>>)}, <<>>)
           tu(kind) == R(<<>>, {Err(i, "tu", kind, FoundOf(cur))}, <<>>)
       IN
  CASE s.k = "name" ->
        IF ~IsObj(cur) THEN tu("object")
        ELSE IF ~HasKey(cur, s.n) THEN mne
        ELSE Ev(steps, i + 1, root, GetKey(cur, s.n), Append(loc, LK(s.n)), TRUE)
    [] s.k = "wild" ->
        IF ~IsCont(cur) THEN tu("object/array")
        ELSE IF Kids(cur) = <<>> THEN mne
        ELSE Combine(Map(down, KidsVL(cur, loc)))
    [] s.k = "multi" ->
        LET allw == \A j \in 1..Len(s.ids) : s.ids[j].k = "wild" IN
        IF allw /\ IsArr(cur) THEN
             IF Kids(cur) = <<>> THEN mne
             ELSE Combine(Map(LAMBDA id : Combine(Map(down, KidsVL(cur, loc))), s.ids))
        ELSE IF ~IsObj(cur) THEN tu("object")
        ELSE LET per(id) == IF id.k = "wild" THEN (IF Kids(cur) = <<>> THEN mne ELSE Combine(Map(down, KidsVL(cur, loc))))
                            ELSE IF HasKey(cur, id.n) THEN down(VL(GetKey(cur, id.n), Append(loc, LK(id.n))))
                            ELSE R(<<>>, {}, <<>>)
                 c == Combine(Map(per, s.ids)) IN
             IF c.vals = <<>> /\ c.errs = {} THEN mne ELSE c
    [] s.k = "union" ->
        IF ~IsArr(cur) THEN tu("array")
        ELSE LET idxs == Flat(Map(LAMBDA sub : SubIdx(sub, Len(cur.a)), s.subs)) IN
             IF idxs = <<>> THEN mne
             ELSE Combine(Map(LAMBDA ix : down(VL(cur.a[ix + 1], Append(loc, LI(ix)))), idxs))
    [] s.k = "filter" ->
        IF ~IsCont(cur) THEN tu("object/array")
        ELSE LET sel == SelectSeq(KidsVL(cur, loc), LAMBDA x : Holds(s.q, root, x.v))
                 flog == AtomLog(s.q, root, Kids(cur))
                 r == IF sel = <<>> THEN mne ELSE Combine(Map(down, sel)) IN
             R(r.vals, r.errs, flog \o r.log)
    [] s.k = "rec" ->
        IF ~IsCont(cur) THEN tu("object/array")
        ELSE LET nx == steps[i + 1]
                 cs == SelectSeq(ContsVL(cur, loc), LAMBDA c : (IsObj(c.v) /\ RecMap(nx)) \/ (IsArr(c.v) /\ RecList(nx)))
                 c == Combine(Map(LAMBDA x : Ev(steps, i + 1, root, x.v, x.loc, set), cs)) IN
             IF c.vals = <<>> /\ c.errs = {} THEN mne ELSE c

\* trailing functions, left to right.  log = sequence of [fn, arg] in call order per function
RECURSIVE Stages(_, _, _, _, _, _, _)
Stages(funcs, i, vals, errs, vg, log, base) ==
  IF i > Len(funcs) \/ vals = <<>> THEN R(vals, errs, log)
  ELSE LET f == funcs[i]  ferr == Err(base + i, "ff", "", <<>>) IN
  IF f.k = "ff" THEN
     LET rs == [j \in 1..Len(vals) |-> ApplyFF(f.n, vals[j].v)]
         okv == SelectSeq(rs, LAMBDA r : r.ok)
         nv == [j \in 1..Len(okv) |-> RV(okv[j].v, <<>>, FALSE)]
         ne == IF \E j \in 1..Len(rs) : ~rs[j].ok THEN errs \cup {ferr} ELSE errs
         lg == log \o [j \in 1..Len(vals) |-> [fn |-> f.n, arg |-> vals[j].v]]
     IN Stages(funcs, i + 1, nv, ne, vg, lg, base)
  ELSE
     LET plain == [j \in 1..Len(vals) |-> vals[j].v]
         arg == IF ~vg /\ plain[1].t = "arr" THEN plain[1].a ELSE plain
         r == ApplyAF(f.n, arg)
         lg == Append(log, [fn |-> f.n, arg |-> Arr(arg)]) IN
     IF r.ok THEN Stages(funcs, i + 1, <<RV(r.v, <<>>, FALSE)>>, {}, FALSE, lg, base)
     ELSE R(<<>>, {ferr}, lg)

\* a whole path (top level or filter operand) evaluated on cur
RunPath(p, root, cur, loc) ==
  LET r == Ev(p.steps, 1, root, cur, loc, loc # <<>>) IN
  Stages(p.funcs, 1, r.vals, r.errs, StepsVG(p.steps), r.log, Len(p.steps))

\* C15: the admissible errors -- deepest step reached; there, non-type-mismatch failures first
MaxI(errs) == CHOOSE m \in {e.i : e \in errs} : \A e \in errs : e.i <= m
Best(errs) == LET deep == {e \in errs : e.i = MaxI(errs)}
                  nt == {e \in deep : e.e # "tu"} IN
              IF nt # {} THEN nt ELSE deep

\* what the API must return for Parse(path)(doc)
Response(p, doc) ==
  LET r == RunPath(p, doc, doc, <<>>) IN
  IF r.vals # <<>> THEN [ok |-> TRUE, vals |-> r.vals, errs |-> {}, log |-> r.log]
  ELSE [ok |-> FALSE, vals |-> <<>>, errs |-> Best(r.errs), log |-> r.log]

\* all filters met on the way are determined (5.7a)?  Conservative: every filter step (also nested
\* in operands) against every container of the document
RECURSIVE DetSteps(_, _), DetQNest(_, _)
DetQNest(q, doc) ==
  CASE q.k \in {"and", "or"} -> DetQNest(q.l, doc) /\ DetQNest(q.r, doc)
    [] q.k = "paren" -> DetQNest(q.q, doc)
    [] q.k \in {"exist", "not"} -> DetSteps(q.p.steps, doc)
    [] q.k \in {"re", "ret"} -> DetSteps(q.l.steps, doc)
    [] q.k = "cmp" -> (q.l.k = "lit" \/ DetSteps(q.l.steps, doc)) /\ (q.r.k = "lit" \/ DetSteps(q.r.steps, doc))
DetSteps(steps, doc) ==
  \A i \in 1..Len(steps) : steps[i].k = "filter" =>
     /\ DetQNest(steps[i].q, doc)
     /\ \A j \in 1..Len(Conts(doc)) : DetQ(steps[i].q, doc, Kids(Conts(doc)[j]))
Determined(p, doc) == DetSteps(p.steps, doc)
\* are the calls of functions inside filter operands determined (single-atom filters only, not nested in operands)?
RECURSIVE OpHasFilter(_)
OpHasFilter(o) == o.k # "lit" /\ \E i \in 1..Len(o.steps) : o.steps[i].k = "filter"
QOperands(q) == CASE q.k \in {"exist", "not"} -> <<q.p>> [] q.k = "re" -> <<q.l>> [] q.k = "cmp" -> <<q.l, q.r>> [] OTHER -> <<>>
FilterLogDet(p) == \A i \in 1..Len(p.steps) : p.steps[i].k = "filter" =>
                      AtomLogDet(p.steps[i].q) /\ \A j \in 1..Len(QOperands(p.steps[i].q)) : ~OpHasFilter(QOperands(p.steps[i].q)[j])

\* ------------------------------------------------------------------ laws checked on the spec itself
\* C08: P followed by Q  =  Q applied to each result of P (Q without `$`-operands / aggregates)
ValsOf(r) == [j \in 1..Len(r.vals) |-> r.vals[j].v]
Compose(steps, doc, k) ==
  LET P == SubSeq(steps, 1, k)  Q == SubSeq(steps, k + 1, Len(steps))
      whole == Ev(steps, 1, doc, doc, <<>>, FALSE)
      first == Ev(P, 1, doc, doc, <<>>, FALSE)
      parts == [j \in 1..Len(first.vals) |-> Ev(Q, 1, doc, first.vals[j].v, <<>>, FALSE)] IN
  ValsOf(whole) = Flat(Map(ValsOf, parts))
\* every location reported is where the value lives
LocsExact(p, doc) ==
  LET r == RunPath(p, doc, doc, <<>>) IN
  \A j \in 1..Len(r.vals) : r.vals[j].set => At(doc, r.vals[j].loc) = r.vals[j].v
FailsIffEmpty(p, doc) ==
  LET r == RunPath(p, doc, doc, <<>>) IN (r.vals = <<>>) => (r.errs # {})
=============================================================================
