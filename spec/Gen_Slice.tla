------------------------------ MODULE Gen_Slice ------------------------------
(* C11: every start/end/step in {omitted} U [-R..R] U five boundary          *)
(* magnitudes, every array length 0..MaxN.  Model level: the mechanism       *)
(* equals the Python definition, stays in range, terminates.  Emit hands     *)
(* each slice (as `$[s:e:c]`, inside a union, after `..`) and each index to  *)
(* the replayer.                                                             *)
EXTENDS GenCommon, Slice
CONSTANTS Rng, MaxN, Bigs, Forms      \* Bigs: BOOLEAN; Forms: "plain" | "all"

Small == (0 - Rng)..Rng
BigSet == IF Bigs THEN {BigP31, BigP63, BigM31, BigM63a, BigM63} ELSE {}
Bound == [v : Small \cup BigSet, o : {FALSE}] \cup {[v |-> 0, o |-> TRUE]}
FormSet == IF Forms = "all" THEN {"plain", "union", "rec", "index", "nested"} ELSE {"plain", "index"}
\* "nested": `$[s:e:c][inner]` on an array of rows -- the index list of the outer subscript is still being consumed
\* while the inner one computes its own
Inners == << Sl(1, FALSE, 3, FALSE, 1, TRUE), Sl(0, TRUE, 0, TRUE, 2, FALSE), Sl(-2, FALSE, 0, TRUE, 1, TRUE), Sl(0, TRUE, 0, TRUE, -1, FALSE), Idx(2) >>

VARIABLES n, sub, form, inner
vars == <<n, sub, form, inner>>
NoSub == Idx(0)
Init == n \in 0..MaxN /\ sub = NoSub /\ form = "none" /\ inner = 0
Next == /\ form = "none"
        /\ UNCHANGED n
        /\ \E f \in FormSet :
             /\ form' = f
             /\ IF f = "index" THEN \E b \in Bound : ~b.o /\ sub' = Idx(b.v)
                ELSE \E s \in Bound, e \in Bound, c \in Bound : sub' = Sl(s.v, s.o, e.v, e.o, c.v, c.o)
             /\ IF f = "nested" THEN inner' \in 1..Len(Inners) ELSE inner' = 0
Spec == Init /\ [][Next]_vars

TheDoc == Arr([i \in 1..n |-> Num(1000 * (i - 1))])
ThePath ==
  CASE form \in {"plain", "index"} -> Path("$", <<Un(<<sub>>)>>, <<>>)
    [] form = "union" -> Path("$", <<Un(<<sub, Idx(0), sub>>)>>, <<>>)
    [] form = "rec" -> Path("$", <<Rec, Un(<<sub>>)>>, <<>>)
    [] form = "nested" -> Path("$", <<Un(<<sub>>), Un(<<Inners[inner]>>)>>, <<>>)
    [] OTHER -> Path("$", <<>>, <<>>)
Rows == Arr([i \in 1..n |-> Arr([j \in 1..3 |-> Num(1000 * (10 * i + j))])])
Doc == IF form = "rec" THEN Arr(<<TheDoc, Oa(TheDoc)>>) ELSE IF form = "nested" THEN Rows ELSE TheDoc

LawMech == (form # "none" /\ sub.k = "slice") => MechIsPython(sub, n) /\ InRange(sub, n) /\ Monotone(sub, n)
LawIndex == (form = "index") => LET r == IndexOf(sub.n, n) IN
              /\ Len(r) <= 1
              /\ (r # <<>> => r[1] = (IF sub.n < 0 THEN sub.n + n ELSE sub.n) /\ r[1] >= 0 /\ r[1] < n)
              /\ (r = <<>> <=> (sub.n >= n \/ sub.n < 0 - n))
Emit == form # "none" => EmitCase(Case("sel", ThePath, Doc, <<Canon, [Canon EXCEPT !.spc = 1, !.plus = TRUE]>>))
=============================================================================
