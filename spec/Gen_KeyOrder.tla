----------------------------- MODULE Gen_KeyOrder -----------------------------
(* C07: members of an object are visited in ascending byte-wise key order,     *)
(* whatever Go's map iteration does.  Objects are built from every subset      *)
(* (MinKeys..MaxKeys keys) of a pool whose byte order, UTF-16 order and length  *)
(* order all differ; paths are the steps that enumerate object members.        *)
(* Model level: UTF-8 byte order = code point order (so KeyLess on code points *)
(* is the byte order encoding/json prints), and the pool really separates the  *)
(* candidate wrong orders.                                                     *)
EXTENDS GenCommon
CONSTANTS MinKeys, MaxKeys

Pool == << <<>>, <<49, 48>>, <<57>>, <<66>>, <<97>>, <<97, 97>>, <<98>>, <<122>>, <<126>>, <<233>>, <<255>>, <<65535>>, <<65536>> >>
\*          ""     "10"       "9"     "B"     "a"     "aa"       "b"     "z"      "~"      e-acute  y-diaeresis U+FFFF  U+10000
NP == Len(Pool)
kx == <<120>>
\* member value for pool key i: distinct numbers, every second one an object with the UTF-16 discriminator pair
Val(i) == IF i % 2 = 1 THEN Num(1000 * i)
          ELSE Obj(<<KV(<<115>>, Obj(<<KV(kx, Num(7000)), KV(<<121>>, Num(8000))>>)),     \* "s": the SAME sub-object in every such member
                     KV(kx, Num(1000 * i)), KV(<<65535>>, Num(1000 * i + 1)), KV(<<65536>>, Num(1000 * i + 2))>>)

Paths == << Path("$", <<Wild>>, <<>>),
            Path("$", <<Rec, Wild>>, <<>>),
            Path("$", <<Flt(Exist(Cur(<<>>)))>>, <<>>),
            Path("$", <<Rec, Flt(Exist(Cur(<<Nm(kx)>>)))>>, <<>>),
            Path("$", <<Multi(<<Wild, Wild>>)>>, <<>>),
            Path("$", <<Wild, Wild>>, <<>>),
            Path("$", <<Rec, Nm(kx)>>, <<>>),
            Path("$", <<Flt(Cmp(">", Cur(<<Nm(kx)>>), Lit(Num(0)))), Wild>>, <<>>),
            Path("$", <<Flt(Exist(Root(<<>>)))>>, <<>>),                      \* member-independent: whole match
            Path("$", <<Flt(NotP(Cur(<<Nm(<<113, 113>>)>>)))>>, <<>>),
            Path("$", <<Flt(Cmp("==", Lit(Num(1000)), Lit(Num(1000)))), Wild>>, <<>>),
            \* a function inside a filter operand is handed the members of an object in key order
            Path("$", <<Flt(Exist(Path("@", <<Wild>>, <<AF(Fn_g1)>>)))>>, <<>>),
            Path("$", <<Wild>>, <<AF(Fn_g1)>>) >>

VARIABLES ks, pi      \* ks: increasing sequence of pool indices; pi: chosen path (0 = none yet)
vars == <<ks, pi>>
Init == ks = <<>> /\ pi = 0
Last == IF ks = <<>> THEN 0 ELSE ks[Len(ks)]
Next == /\ pi = 0
        /\ \/ Len(ks) < MaxKeys /\ \E i \in (Last + 1)..NP : ks' = Append(ks, i) /\ pi' = 0
           \/ Len(ks) >= MinKeys /\ \E p \in 1..Len(Paths) : pi' = p /\ ks' = ks
Spec == Init /\ [][Next]_vars

\* Pool is listed in ascending KeyLess order, so the object is well-formed by construction
Doc == Obj([j \in 1..Len(ks) |-> KV(Pool[ks[j]], Val(ks[j]))])
LawPoolSorted == \A i \in 1..(NP - 1) : KeyLess(Pool[i], Pool[i + 1])
LawUtf8 == \A i \in 1..NP, j \in 1..NP : Utf8OrderIsCodePointOrder(Pool[i], Pool[j])
\* the pool tells the required order from the plausible wrong ones
LawSeparates == /\ \E i \in 1..NP, j \in 1..NP : KeyLess(Pool[i], Pool[j]) /\ LexLess(Utf16Seq(Pool[j]), Utf16Seq(Pool[i]))   \* not UTF-16 order
                /\ \E i \in 1..NP, j \in 1..NP : KeyLess(Pool[i], Pool[j]) /\ Len(Pool[i]) > Len(Pool[j])                    \* not length order
                /\ \E i \in 1..NP, j \in 1..NP : KeyLess(Pool[i], Pool[j]) /\ Pool[i] # <<>> /\ Pool[j] # <<>> /\ Pool[i][1] < 97 /\ Pool[j][1] >= 97 \* not case-insensitive
LawDocSorted == SortedMembers(Doc.o)
Emit == pi > 0 => EmitCase(Case("sel", Paths[pi], Doc, <<Canon>>))
=============================================================================
