----------------------------- MODULE Gen_History -----------------------------
(* C05: a parsed function is pure.  A behaviour is: parse ONE function, then    *)
(* a history of operations on it --                                             *)
(*    Call(d)      call it with document d of the pool                          *)
(*    Scribble     the caller overwrites every slice it was given so far        *)
(*    Unrelated    other Parse/Retrieve calls that recycle the pooled buffers   *)
(* The response the specification demands for Call(d) is Response(path, d):     *)
(* it does not mention the history, and that is the property.  The functions    *)
(* are the kill queries of the L2 models (FilterProtoHist: literal cells of the  *)
(* tree; PoolMachine: result/pool buffer aliasing), the documents flip the       *)
(* filter outcomes between consecutive calls and include results of 17..31       *)
(* values (slice growth boundaries).                                            *)
EXTENDS GenCommon
CONSTANTS MaxOps, FnSet       \* FnSet: "core" | "all"

kl == <<108>>  kx == <<120>>  ky == <<121>>
Pa == Cur(<<Nm(ka)>>)   Px == Root(<<Nm(kx)>>)   Py == Root(<<Nm(ky)>>)
L(q) == Path("$", <<Nm(kl), Flt(q)>>, <<>>)
FnsCore == <<
  L(Cmp("==", Px, Lit(N1))),                 \* literal-like == literal
  L(Cmp(">", Pa, Px)),                       \* per-member operand against a `$` operand
  L(Cmp("<", Lit(N1), Px)),                  \* literal on the left of an ordering
  L(Cmp("==", Pa, Lit(N1))),
  L(Cmp("==", Pa, Px)),
  L(Cmp("!=", Pa, Py)),
  Path("$", <<Nm(kl), Wild>>, <<>>),
  Path("$", <<Rec, Wild>>, <<>>),
  Path("$", <<Nm(kl), Wild, Nm(ka)>>, <<AF(Fn_g1)>>),
  Path("$", <<Nm(kl), Wild, Nm(ka)>>, <<AF(Fn_gid)>>),     \* the aggregate returns the very list it was given
  L(And(Exist(Px), Cmp("==", Pa, Px))),
  Path("$", <<Nm(kl), Un(<<Sl(-2, FALSE, 2, FALSE, 1, FALSE)>>)>>, <<>>),     \* [-2:2] on lists of different lengths
  Path("$", <<Nm(kl), Nm(ka)>>, <<>>),
  L(And(NotP(Pa), Exist(Cur(<<Nm(kb)>>)))),        \* whole-true left operand, non-matching right one, on ONE member
  L(Cmp(">", Pa, Lit(N1))),                        \* on objects of 3, then 2, then 1 members
  Path("$", <<Nm(kl), Un(<<Sl(0, TRUE, 0, TRUE, 1, TRUE)>>)>>, <<>>) >>
FnsMore == <<
  L(Exist(Px)), L(NotP(Px)), L(Cmp("<=", Px, Pa)), L(Cmp("==", Lit(N1), Lit(N2))), L(Cmp("==", Px, Py)),
  Path("$", <<Nm(kl), Un(<<Idx(0), Idx(1)>>)>>, <<>>), Path("$", <<Nm(kx)>>, <<>>),
  Path("$", <<Nm(kl), Flt(Exist(Pa)), Rec, Wild>>, <<>>), L(Re(Pa, "a")), L(Or(Cmp("==", Pa, Px), NotP(Py))),
  Path("$", <<Nm(kl), Wild>>, <<FF(Fn_f1)>>), L(Cmp("==", Path("@", <<Nm(ka)>>, <<FF(Fn_fid)>>), Px)) >>
Fns == IF FnSet = "core" THEN FnsCore ELSE FnsCore \o FnsMore

Big(n) == Arr([i \in 1..n |-> Oa(Num(1000 * i))])
D(l, x, y) == Obj(<<KV(kl, l)>> \o (IF x = <<>> THEN <<>> ELSE <<KV(kx, x[1])>>) \o (IF y = <<>> THEN <<>> ELSE <<KV(ky, y[1])>>))
Docs == <<
  D(Arr(<<Oa(N1), Oa(N2)>>), <<N1>>, <<>>),
  D(Arr(<<Oa(N1), Oa(N2)>>), <<N2>>, <<N1>>),
  D(Arr(<<Oa(N3)>>), <<>>, <<>>),
  D(Big(20), <<N1>>, <<>>),
  D(Obj(<<KV(ka, Oa(N1)), KV(kb, Oa(N2))>>), <<N1>>, <<N1>>),
  N1,
  D(Arr(<<Oa(Sa), Ob(N1)>>), <<Sa>>, <<N2>>),
  Sa,
  D(Arr(<<Oa(N1), Oa(N2), Oa(N3)>>), <<N3>>, <<>>),
  Obj(<<KV(kl, Sa)>>), Obj(<<KV(kl, N1)>>),
  D(Arr(<<Obj(<<KV(kc, N1)>>)>>), <<>>, <<>>),
  D(Obj(<<KV(ka, Oa(N3)), KV(kb, Oa(N2)), KV(kc, Oa(N1))>>), <<N1>>, <<>>),
  D(Obj(<<KV(kb, Oa(N2))>>), <<N1>>, <<>>) >>

OpSet == [k : {"call"}, d : 1..Len(Docs)] \cup {[k |-> "scribble", d |-> 0], [k |-> "unrelated", d |-> 0]}

VARIABLES f, hist
vars == <<f, hist>>
Init == f \in 1..Len(Fns) /\ hist = <<>>
Next == Len(hist) < MaxOps /\ f' = f /\ \E o \in OpSet : hist' = Append(hist, o)
Spec == Init /\ [][Next]_vars

Exp(o) == IF o.k = "call" THEN [k |-> "call", d |-> o.d, det |-> Determined(Fns[f], Docs[o.d]), res |-> Response(Fns[f], Docs[o.d])]
          ELSE [k |-> o.k, d |-> 0, det |-> TRUE, res |-> Response(Path("$", <<>>, <<>>), Null)]
\* the property, as a statement about the specification: the demanded response of an operation is a
\* function of that operation alone (it is -- Exp(o) does not mention hist; TLC re-checks on prefixes)
LawHistoryFree == \A i \in 1..Len(hist), j \in 1..Len(hist) : hist[i] = hist[j] => Exp(hist[i]) = Exp(hist[j])
\* emit only histories that end with a call (the others are prefixes of those)
Emit == (hist # <<>> /\ hist[Len(hist)].k = "call") =>
          PrintT(ToJson([fam |-> "hist", path |-> Fns[f], text |-> PathText(Fns[f], Canon),
                         docs |-> Docs, ops |-> [i \in 1..Len(hist) |-> Exp(hist[i])]]))
=============================================================================
