------------------------------- MODULE MC_Conc -------------------------------
(* Model-checking instances of Conc: which programs the goroutines run.       *)
EXTENDS Conc
P2a == << <<"parseok", "call">>, <<"callnested", "parsefail">> >>
P2b == << <<"parsefail", "call">>, <<"call", "parseok">> >>
P2c == << <<"callnested", "callnested">>, <<"callnested", "parseok">> >>
P3  == << <<"parseok">>, <<"call">>, <<"callnested">> >>
P1  == << <<"parsefail", "parseok", "callnested", "call">> >>      \* one goroutine: the sequential histories of C05 / C19
==============================================================================
