------------------------------- MODULE MC_Mech -------------------------------
(* The retrieval mechanism (Mech) checked against the reference semantics on  *)
(* the state space of Gen_Select: every enumerated (document, path).          *)
EXTENDS Gen_Select, Mech
LawMechRefines == Refines(ThePath, doc)
==============================================================================
