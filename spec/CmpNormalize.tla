---------------------------- MODULE CmpNormalize ----------------------------
(* The operand reordering of < <= > >= done while parsing: a comparison with *)
(* a literal-like operand (a literal or a `$`-rooted path) on the left is    *)
(* mirrored so that the per-member operand ends up on the left.  The four    *)
(* push functions call each other; this is that call graph as a transition   *)
(* system.  C02 needs it to terminate for every operator and operand kinds.  *)
(* AsCoded = TRUE is the condition the pinned tree used (mirror whenever the *)
(* left operand is literal-like): TLC then finds the non-terminating lasso.  *)
EXTENDS Naturals
CONSTANT AsCoded
VARIABLES op, leftLit, rightLit, done, calls
vars == <<op, leftLit, rightLit, done, calls>>

Mirror(o) == CASE o = "<" -> ">" [] o = "<=" -> ">=" [] o = ">" -> "<" [] o = ">=" -> "<="

Init == op \in {"<", "<=", ">", ">="} /\ leftLit \in BOOLEAN /\ rightLit \in BOOLEAN /\ done = FALSE /\ calls = 0
MustSwap == IF AsCoded THEN leftLit ELSE leftLit /\ ~rightLit
Swap == ~done /\ MustSwap /\ op' = Mirror(op) /\ leftLit' = rightLit /\ rightLit' = leftLit
        /\ calls' = (IF calls < 3 THEN calls + 1 ELSE calls) /\ UNCHANGED done
Build == ~done /\ ~MustSwap /\ done' = TRUE /\ UNCHANGED <<op, leftLit, rightLit, calls>>
Next == Swap \/ Build
Spec == Init /\ [][Next]_vars /\ WF_vars(Next)

Terminates == <>done
\* once built, the per-member operand (the only non-literal-like one) is on the left
BuiltRight == done => (leftLit => rightLit)
AtMostOneSwap == calls <= 1
=============================================================================
