-------------------------------- MODULE Sched --------------------------------
(* C06, schedule replay ("record, then permute").  Each goroutine's program    *)
(* is first run alone with the hooks logging, which gives its sequence of      *)
(* hook points Seqs[g] (1 parse.enter, 2 parse.locked, 3 parse.unlocking,       *)
(* 4 call.enter, 5 call.exit, 6 pool.get, 7 pool.put, 8/9 key slice get/put).   *)
(* This module is Conc at the granularity of those recorded events: a          *)
(* goroutine stands at a gate (the hook it arrived at); Release(g) lets it run  *)
(* to its next hook.  The only enabling condition the protocol imposes is the   *)
(* mutex: a goroutine released towards parse.locked while another one is        *)
(* between parse.locked and parse.unlocking does NOT arrive -- it is pending    *)
(* inside Lock() until the holder has been released from parse.unlocking.       *)
(* A behaviour (sequence of releases with the arrivals each one must produce)   *)
(* is forced on the real library by the gate scheduler of the harness; an       *)
(* arrival the model does not predict (e.g. a second goroutine inside Parse)    *)
(* or a predicted one that does not happen rejects the schedule.                *)
EXTENDS Integers, Sequences, FiniteSets, TLC, Json
CONSTANTS Seqs, PairId

G == 1..Len(Seqs)
Locked == 2
Unlocking == 3
VARIABLES pos,       \* pos[g]: number of hook arrivals of g consumed so far
          started, done,
          holder,    \* goroutine between parse.locked and parse.unlocking (0: none)
          pending,   \* goroutine released towards parse.locked while the mutex was held (0: none)
          trace      \* the releases so far: <<[g, await |-> <<[g, point]>>]>>   (point 0 = the goroutine finished)
vars == <<pos, started, done, holder, pending, trace>>

Init == /\ pos = [g \in G |-> 0] /\ started = [g \in G |-> FALSE] /\ done = [g \in G |-> FALSE]
        /\ holder = 0 /\ pending = 0 /\ trace = <<>>

Leaving(g) == IF started[g] /\ pos[g] > 0 THEN Seqs[g][pos[g]] ELSE 0
Release(g) ==
  /\ ~done[g] /\ pending # g
  /\ LET unlock == Leaving(g) = Unlocking
         \* the pending goroutine gets the mutex as soon as the holder has unlocked
         wake == IF unlock /\ pending # 0 THEN pending ELSE 0
         pos1 == IF wake # 0 THEN [pos EXCEPT ![wake] = @ + 1] ELSE pos
         holder1 == IF unlock THEN wake ELSE holder
         aw1 == IF wake # 0 THEN <<[g |-> wake, point |-> Locked]>> ELSE <<>>
     IN
     IF pos[g] = Len(Seqs[g]) THEN      \* runs to completion
          /\ done' = [done EXCEPT ![g] = TRUE] /\ pos' = pos1 /\ holder' = holder1
          /\ pending' = (IF wake # 0 THEN 0 ELSE pending)
          /\ trace' = Append(trace, [g |-> g, await |-> Append(aw1, [g |-> g, point |-> 0])])
     ELSE LET nx == Seqs[g][pos[g] + 1]
              blocks == nx = Locked /\ holder1 # 0 IN
          \* at most one goroutine is parked inside Lock(): with two, Go's mutex may wake either and the
          \* arrival order could not be predicted (a restriction of the driver, not of the library)
          /\ ~(blocks /\ pending # 0 /\ wake = 0)
          /\ done' = done
          /\ pos' = (IF blocks THEN pos1 ELSE [pos1 EXCEPT ![g] = @ + 1])
          /\ holder' = (IF blocks THEN holder1 ELSE IF nx = Locked THEN g ELSE holder1)
          /\ pending' = (IF blocks THEN g ELSE IF wake # 0 THEN 0 ELSE pending)
          /\ trace' = Append(trace, [g |-> g, await |-> IF blocks THEN aw1 ELSE Append(aw1, [g |-> g, point |-> nx])])
  /\ started' = [started EXCEPT ![g] = TRUE]
Next == \E g \in G : Release(g)
Spec == Init /\ [][Next]_vars /\ WF_vars(Next)

AllDone == \A g \in G : done[g]
\* at most one goroutine is between parse.locked and parse.unlocking
InSection(g) == \E i \in 1..pos[g] : Seqs[g][i] = Locked /\ ~\E j \in (i + 1)..pos[g] : Seqs[g][j] = Unlocking
MutualExclusion == Cardinality({g \in G : InSection(g)}) <= 1
\* a pending goroutine only exists while somebody holds the mutex; nobody waits for ever
PendingHasHolder == pending # 0 => holder # 0 /\ holder # pending
NoDeadlock == ~AllDone => \E g \in G : ENABLED Release(g)
Terminates == <>AllDone
Emit == AllDone => PrintT(ToJson([fam |-> "sched", pair |-> PairId, seqs |-> Seqs, trace |-> trace]))
=============================================================================
