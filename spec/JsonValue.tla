---------------------------- MODULE JsonValue ----------------------------
(* Decoded JSON as the library sees it, plus opaque (non-JSON) Go values.   *)
(*                                                                          *)
(* Values are tagged records whose payload field is named per type, so that *)
(* TLC's structural equality never compares an integer with a string:       *)
(*   [t |-> "null"]  [t |-> "bool", b]  [t |-> "num", n]  [t |-> "str", s]   *)
(*   [t |-> "arr", a |-> <<values>>]                                        *)
(*   [t |-> "obj", o |-> <<[key, val]>>]   members strictly ascending (KeyLess) *)
(*   [t |-> "opq", id, ty, seq]   a Go value encoding/json never produces    *)
(* num.n is the value times 1000 (three decimals).  Strings and keys are    *)
(* sequences of Unicode code points; KeyLess is the order of their UTF-8    *)
(* encodings (= code point order, lemma Utf8OrderIsCodePointOrder).         *)
EXTENDS Integers, Sequences, FiniteSets, TLC

Null       == [t |-> "null"]
Bool(b)    == [t |-> "bool", b |-> b]
Num(n)     == [t |-> "num", n |-> n]
Str(s)     == [t |-> "str", s |-> s]
Arr(xs)    == [t |-> "arr", a |-> xs]
Obj(ms)    == [t |-> "obj", o |-> ms]
KV(k, x)   == [key |-> k, val |-> x]
\* id: identity class; ty: index into the harness' table of Go types;
\* seq: reflect.DeepEqual(x, x) (false for non-nil funcs)
Opq(id, ty, seq) == [t |-> "opq", id |-> id, ty |-> ty, seq |-> seq]

IsObj(x)  == x.t = "obj"
IsArr(x)  == x.t = "arr"
IsCont(x) == x.t \in {"obj", "arr"}

RECURSIVE Flat(_)
Flat(ss) == IF ss = <<>> THEN <<>> ELSE Head(ss) \o Flat(Tail(ss))
Map(f(_), s) == [i \in 1..Len(s) |-> f(s[i])]
MapI(f(_, _), s) == [i \in 1..Len(s) |-> f(i, s[i])]

\* ------------------------------------------------------------- key order
RECURSIVE LexLess(_, _)
LexLess(a, b) ==
  IF b = <<>> THEN FALSE
  ELSE IF a = <<>> THEN TRUE
  ELSE IF a[1] < b[1] THEN TRUE
  ELSE IF a[1] > b[1] THEN FALSE
  ELSE LexLess(Tail(a), Tail(b))

Utf8(c) ==
  IF c < 128 THEN <<c>>
  ELSE IF c < 2048 THEN <<192 + (c \div 64), 128 + (c % 64)>>
  ELSE IF c < 65536 THEN <<224 + (c \div 4096), 128 + ((c \div 64) % 64), 128 + (c % 64)>>
  ELSE <<240 + (c \div 262144), 128 + ((c \div 4096) % 64), 128 + ((c \div 64) % 64), 128 + (c % 64)>>
Utf8Seq(s) == Flat(Map(Utf8, s))
\* UTF-16 code units (used only to show that the required order differs from it)
Utf16(c) == IF c < 65536 THEN <<c>> ELSE <<55296 + ((c - 65536) \div 1024), 56320 + ((c - 65536) % 1024)>>
Utf16Seq(s) == Flat(Map(Utf16, s))

KeyLess(a, b) == LexLess(a, b)
Utf8OrderIsCodePointOrder(a, b) == LexLess(Utf8Seq(a), Utf8Seq(b)) = LexLess(a, b)

SortedMembers(ms) == \A i \in 1..(Len(ms) - 1) : KeyLess(ms[i].key, ms[i + 1].key)
RECURSIVE InsertKV(_, _)
InsertKV(ms, kv) ==
  IF ms = <<>> THEN <<kv>>
  ELSE IF KeyLess(kv.key, ms[1].key) THEN <<kv>> \o ms
  ELSE IF kv.key = ms[1].key THEN <<kv>> \o Tail(ms)
  ELSE <<ms[1]>> \o InsertKV(Tail(ms), kv)
RECURSIVE MkObjMs(_)
\* object from members in any order (later duplicates win)
MkObjMs(ms) == IF ms = <<>> THEN <<>> ELSE InsertKV(MkObjMs(SubSeq(ms, 1, Len(ms) - 1)), ms[Len(ms)])
MkObj(ms) == Obj(MkObjMs(ms))

\* ------------------------------------------------------------- navigation
\* a location is a sequence of [k |-> key] / [i |-> 0-based index] from the root
LK(k) == [k |-> k]
LI(i) == [i |-> i]
Kids(x) == IF IsArr(x) THEN x.a ELSE IF IsObj(x) THEN [i \in 1..Len(x.o) |-> x.o[i].val] ELSE <<>>
KidLocs(x) == IF IsArr(x) THEN [i \in 1..Len(x.a) |-> LI(i - 1)]
              ELSE IF IsObj(x) THEN [i \in 1..Len(x.o) |-> LK(x.o[i].key)] ELSE <<>>
HasKey(x, k) == \E i \in 1..Len(x.o) : x.o[i].key = k
KeyIdx(x, k) == CHOOSE i \in 1..Len(x.o) : x.o[i].key = k
GetKey(x, k) == x.o[KeyIdx(x, k)].val

\* value + location pairs
VL(v, loc) == [v |-> v, loc |-> loc]
KidsVL(x, loc) == [i \in 1..Len(Kids(x)) |-> VL(Kids(x)[i], Append(loc, KidLocs(x)[i]))]

RECURSIVE ContsVL(_, _)
\* descendant containers including x itself, pre-order, objects by ascending key
ContsVL(x, loc) ==
  IF IsCont(x) THEN <<VL(x, loc)>> \o Flat([i \in 1..Len(Kids(x)) |-> ContsVL(Kids(x)[i], Append(loc, KidLocs(x)[i]))])
  ELSE <<>>
Conts(x) == Map(LAMBDA p : p.v, ContsVL(x, <<>>))

RECURSIVE At(_, _), Put(_, _, _)
At(x, loc) ==
  IF loc = <<>> THEN x
  ELSE IF "k" \in DOMAIN loc[1] THEN At(GetKey(x, loc[1].k), Tail(loc))
  ELSE At(x.a[loc[1].i + 1], Tail(loc))
Put(x, loc, v) ==
  IF loc = <<>> THEN v
  ELSE IF "k" \in DOMAIN loc[1]
       THEN LET i == KeyIdx(x, loc[1].k) IN Obj([x.o EXCEPT ![i] = KV(x.o[i].key, Put(x.o[i].val, Tail(loc), v))])
       ELSE Arr([x.a EXCEPT ![loc[1].i + 1] = Put(x.a[loc[1].i + 1], Tail(loc), v)])

RECURSIVE Size(_), Depth(_)
Size(x) == 1 + (IF Kids(x) = <<>> THEN 0 ELSE LET s == Map(Size, Kids(x)) IN
                  LET RECURSIVE Sum(_) Sum(q) == IF q = <<>> THEN 0 ELSE q[1] + Sum(Tail(q)) IN Sum(s))
Depth(x) == IF Kids(x) = <<>> THEN 0 ELSE
              1 + (LET d == {Depth(Kids(x)[i]) : i \in 1..Len(Kids(x))} IN CHOOSE m \in d : \A e \in d : e <= m)

\* deep equality as reflect.DeepEqual sees decoded JSON of ONE decode mode; opaque values by
\* identity class, and only if the Go value is DeepEqual to itself
RECURSIVE VEq(_, _)
VEq(a, b) ==
  IF a.t # b.t THEN FALSE
  ELSE CASE a.t = "arr" -> Len(a.a) = Len(b.a) /\ \A i \in 1..Len(a.a) : VEq(a.a[i], b.a[i])
         [] a.t = "obj" -> Len(a.o) = Len(b.o) /\ \A i \in 1..Len(a.o) : a.o[i].key = b.o[i].key /\ VEq(a.o[i].val, b.o[i].val)
         [] a.t = "opq" -> a.id = b.id /\ a.ty = b.ty /\ a.seq
         [] OTHER -> a = b

\* Go type name printed in `found=` of ErrorTypeUnmatched is decided on the Go side from the tag
Tag(x) == x.t
=============================================================================
