----------------------------- MODULE Trace_Conc -----------------------------
(* C06, direction B: a trace of hook events recorded from free-running       *)
(* goroutines (sequence numbers taken while the resource is held: after Get, *)
(* before Put, inside the mutex) is accepted only if every event is enabled  *)
(* in the protocol of module Conc:                                           *)
(*   2 parse.locked     by nobody who already holds it                       *)
(*   3 parse.unlocking  by a holder                                          *)
(*   6/8 pool get of b  needs b not owned by anybody (BufferPrivacy)         *)
(*   7/9 pool put of b  by its owner                                         *)
(* Whether two goroutines are inside the parser section at once is printed   *)
(* ("overlap"), not rejected: with the ONE package-level parser of this tree  *)
(* it never happens (Conc!MutualExclusion) and the driver reports it in the   *)
(* evidence; in a tree that gives every Parse call a parser of its own it is  *)
(* legal, and what C06 demands there is decided by the race detector and the  *)
(* comparison with sequential results, not by this protocol.                  *)
(* Events 1, 4, 5 carry no obligation.  Hook events are optional: a refactor *)
(* that removes a pool removes events, it cannot cause a rejection.          *)
EXTENDS Integers, Sequences, TLC, Json
CONSTANT TraceFile
Trace == ndJsonDeserialize(TraceFile)

VARIABLES l, holder, owner      \* owner: function buffer id -> goroutine (0 = free); domain grows
vars == <<l, holder, owner>>
Bufs == {Trace[i].buf : i \in 1..Len(Trace)} \ {0}
Init == l = 1 /\ holder = {} /\ owner = [b \in Bufs |-> 0]

Ev == Trace[l]
Step ==
  /\ l <= Len(Trace) /\ l' = l + 1
  /\ CASE Ev.point = 2 -> Ev.g \notin holder /\ holder' = holder \cup {Ev.g} /\ UNCHANGED owner
                           /\ (holder # {} => PrintT(<<"overlap", l>>))
       [] Ev.point = 3 -> Ev.g \in holder /\ holder' = holder \ {Ev.g} /\ UNCHANGED owner
       [] Ev.point \in {6, 8} -> owner[Ev.buf] = 0 /\ owner' = [owner EXCEPT ![Ev.buf] = Ev.g] /\ UNCHANGED holder
       [] Ev.point \in {7, 9} -> owner[Ev.buf] = Ev.g /\ owner' = [owner EXCEPT ![Ev.buf] = 0] /\ UNCHANGED holder
       [] OTHER -> UNCHANGED <<holder, owner>>
Spec == Init /\ [][Step]_vars
\* acceptance: the whole trace was consumed (checked by the driver on the number of states);
\* the first rejected event is Trace[l] of the last state
Progress == PrintT(<<"consumed", l - 1>>)
=============================================================================
