---------------------------- MODULE Gen_ParseHist ----------------------------
(* C19: Parse depends only on the path and the Config of that call.            *)
(* A behaviour is a history of Parse calls over a pool of (path, config)       *)
(* pairs: valid paths (one per way a path can begin), paths that abort at each *)
(* action that can abort -- also inside a filter operand, where the action     *)
(* stack is split across saveParams/loadParams -- and configurations with      *)
(* disjoint function sets, with and without accessor mode.  The pool is        *)
(* written by the driver (PoolFile, ndjson) so that it can hold arbitrary      *)
(* path texts.                                                                 *)
(* What the specification demands of call k is ParseModel(path_k, config_k)    *)
(* and, if that is a function, Response(path_k, probe) on the probe documents: *)
(* neither mentions the calls before it.  The mechanism that is meant to       *)
(* achieve this (one deferred reset of the global parser under the mutex) is   *)
(* modelled in Conc (ResidueFree).                                             *)
EXTENDS Actions, Json, TLC
CONSTANTS PoolFile, MaxCalls

Pool == ndJsonDeserialize(PoolFile)
NPool == Len(Pool)

ka == <<97>>  kb == <<98>>  kx == <<120>>
N1 == Num(1000)  N2 == Num(2000)
\* "x<TAB>y" and "xty": the text x\ty means the first as a quoted member name and the second as a string literal
kTab == <<120, 9, 121>>   kT == <<120, 116, 121>>
Probes == << Obj(<<KV(ka, N1), KV(kb, N2), KV(kx, Obj(<<KV(ka, N1), KV(kb, Arr(<<N1>>))>>)), KV(kTab, Num(3000)), KV(kT, Num(4000))>>),
             Arr(<<Obj(<<KV(ka, N1)>>), Obj(<<KV(kb, N2)>>), Obj(<<KV(ka, N2), KV(kx, N1)>>), Str(kTab), Str(kT)>>) >>

\* outcome of one pool entry, computed once (constant level)
OutcomeOf(e) ==
  LET full == ParseFull(e.s, e.cfg, ModelTabs)
      o == full.out IN
  IF o.cls # "ok" THEN [cls |-> o.cls, pos |-> o.pos, why |-> o.why, text |-> o.text, asm |-> full.asm, probes |-> <<>>]
  ELSE LET p == CleanPath(o.ast) IN
       [cls |-> "ok", pos |-> 0, why |-> "", text |-> <<>>, asm |-> full.asm,
        probes |-> [i \in 1..Len(Probes) |-> [det |-> Determined(p, Probes[i]) /\ ExactSteps(o.ast.steps), res |-> Response(p, Probes[i])]]]
Outcomes == [i \in 1..NPool |-> OutcomeOf(Pool[i])]

VARIABLE hist          \* sequence of pool indices
Init == hist = <<>>
Next == Len(hist) < MaxCalls /\ \E i \in 1..NPool : hist' = Append(hist, i)
Spec == Init /\ [][Next]_hist

LawDocumented == \A i \in 1..NPool : Outcomes[i].cls \in Documented
Emit == hist # <<>> => PrintT(ToJson([fam |-> "phist", probes |-> Probes,
                          calls |-> [k \in 1..Len(hist) |-> [idx |-> hist[k], name |-> Pool[hist[k]].name, s |-> Pool[hist[k]].s,
                                                              cfg |-> Pool[hist[k]].cfg, acc |-> Pool[hist[k]].acc,
                                                              variant |-> Pool[hist[k]].variant, extra |-> Pool[hist[k]].extra, out |-> Outcomes[hist[k]]]]]))
=============================================================================
