-------------------------------- MODULE Conc --------------------------------
(* L2: the shared mutable state behind Parse and parsed functions, and the    *)
(* protocol that is meant to make them safe for concurrent use (C06), pure     *)
(* (C05, one goroutine) and independent of earlier Parse calls (C19).          *)
(*                                                                            *)
(* Shared state                                                               *)
(*   parser : the single package-level PEG parser with its action state       *)
(*            (params / paramsList / root / function tables / accessor flag), *)
(*            guarded by parseMutex and cleared by one deferred statement     *)
(*   pool   : sync.Pool of result containers (and sorted-key slices); a       *)
(*            buffer is taken with Get, truncated and returned with Put, and  *)
(*            taken re-entrantly (aggregate parameters, filter operands)      *)
(*   tree   : the parsed syntax tree of a function shared by several callers; *)
(*            read-only after Parse                                           *)
(*   docs   : documents shared read-only between callers                      *)
(* One action per critical section of the code; the hooks of the verif build  *)
(* fire at exactly these points, so that TLC-generated interleavings can be   *)
(* forced on the real library and recorded hook traces checked against this   *)
(* module (Trace_Conc).                                                       *)
(*                                                                            *)
(* Each goroutine g runs Prog[g], a sequence of operations                    *)
(*   "parseok" / "parsefail" : Parse of a path that succeeds / aborts in an   *)
(*                             action (panics) half-way                       *)
(*   "call"                  : call of the shared parsed function             *)
(*   "callnested"            : the same with a nested container (aggregate /  *)
(*                             filter operand)                                *)
(* Switches (all TRUE = the design as implemented; FALSE = mechanism off, TLC *)
(* must then find the violation -- the kill schedules):                       *)
(*   UseMutex, ResetParser, PoolPrivate, CopyOut, TreeReadOnly                *)
EXTENDS Integers, Sequences, FiniteSets, TLC
CONSTANTS NG, Prog, UseMutex, ResetParser, PoolPrivate, CopyOut, TreeReadOnly

G == 1..NG
NoG == 0

VARIABLES pc,        \* pc[g]: <<index into Prog[g], step within the operation>>
          holder,    \* goroutine holding parseMutex (0 = free)
          inParser,  \* set of goroutines between `locked` and `unlocking`
          pstate,    \* residue in the global parser: "clean" | "dirty"
          sawDirty,  \* some Parse found residue of an earlier call when it started (C19)
          pool,      \* set of free buffer ids
          owner,     \* owner[b]: goroutine that took buffer b (0 = in the pool)
          held,      \* held[g]: stack of buffers taken by g
          nbuf,      \* number of buffers ever allocated
          backing,   \* backing[g]: buffer id the last result slice of g shares its array with (0 = private copy)
          treeAcc,   \* multiset of running accesses to the shared tree: set of <<g, "r"|"w">>
          race       \* a write to shared memory overlapped another access (what the race detector reports)
vars == <<pc, holder, inParser, pstate, sawDirty, pool, owner, held, nbuf, backing, treeAcc, race>>

MaxBuf == 6
Op(g) == IF pc[g][1] <= Len(Prog[g]) THEN Prog[g][pc[g][1]] ELSE "done"
At(g, op, step) == Op(g) = op /\ pc[g][2] = step
IsParse(g) == Op(g) \in {"parseok", "parsefail"}
Goto(g, step) == pc' = [pc EXCEPT ![g] = <<pc[g][1], step>>]
NextOp(g) == pc' = [pc EXCEPT ![g] = <<pc[g][1] + 1, 0>>]

Init == /\ pc = [g \in G |-> <<1, 0>>] /\ holder = NoG /\ inParser = {} /\ pstate = "clean" /\ sawDirty = FALSE
        /\ pool = {} /\ owner = [b \in 1..MaxBuf |-> NoG] /\ held = [g \in G |-> <<>>] /\ nbuf = 0
        /\ backing = [g \in G |-> 0] /\ treeAcc = {} /\ race = FALSE

\* ---------------------------------------------------------------- Parse
\* hook 1 parse.enter ; hook 2 parse.locked ; hook 3 parse.unlocking
Lock(g) == /\ IsParse(g) /\ pc[g][2] = 0
           /\ (UseMutex => holder = NoG)
           /\ holder' = (IF UseMutex THEN g ELSE holder)
           /\ inParser' = inParser \cup {g}
           /\ sawDirty' = (sawDirty \/ pstate = "dirty")
           /\ Goto(g, 1)
           /\ UNCHANGED <<pstate, pool, owner, held, nbuf, backing, treeAcc, race>>
\* the actions run and leave params / function tables in the global parser
RunActions(g) == /\ IsParse(g) /\ pc[g][2] = 1
                 /\ pstate' = "dirty"
                 /\ race' = (race \/ Cardinality(inParser) > 1)      \* two goroutines inside the unsynchronised parser
                 /\ Goto(g, 2)
                 /\ UNCHANGED <<holder, inParser, sawDirty, pool, owner, held, nbuf, backing, treeAcc>>
\* deferred: recover, reset the global state, unlock (also on the panic path of "parsefail")
Unlock(g) == /\ IsParse(g) /\ pc[g][2] = 2
             /\ pstate' = (IF ResetParser THEN "clean" ELSE pstate)
             /\ holder' = (IF holder = g THEN NoG ELSE holder)
             /\ inParser' = inParser \ {g}
             /\ NextOp(g)
             /\ UNCHANGED <<sawDirty, pool, owner, held, nbuf, backing, treeAcc, race>>

\* ---------------------------------------------------------------- call of a parsed function
IsCall(g) == Op(g) \in {"call", "callnested"}
\* hook 6 pool.get : take a free buffer or allocate one
Get(g, from, to) ==
  /\ IsCall(g) /\ pc[g][2] = from
  /\ \/ \E b \in pool : /\ pool' = (IF PoolPrivate THEN pool \ {b} ELSE pool)
                        /\ race' = (race \/ owner[b] # NoG)          \* handed out while somebody still uses it
                        /\ owner' = [owner EXCEPT ![b] = g]
                        /\ held' = [held EXCEPT ![g] = Append(@, b)]
                        /\ nbuf' = nbuf
     \/ /\ pool = {} /\ nbuf < MaxBuf
        /\ nbuf' = nbuf + 1
        /\ owner' = [owner EXCEPT ![nbuf + 1] = g]
        /\ held' = [held EXCEPT ![g] = Append(@, nbuf + 1)]
        /\ UNCHANGED <<pool, race>>
  /\ Goto(g, to)
  /\ UNCHANGED <<holder, inParser, pstate, sawDirty, backing, treeAcc>>
\* the walk reads the shared tree (and, if the mechanism is off, writes a literal cell of it)
WalkBegin(g) == /\ IsCall(g) /\ pc[g][2] = 1
                /\ LET kind == IF TreeReadOnly THEN "r" ELSE "w" IN
                   /\ race' = (race \/ \E a \in treeAcc : a[1] # g /\ (a[2] = "w" \/ kind = "w"))
                   /\ treeAcc' = treeAcc \cup {<<g, kind>>}
                /\ Goto(g, 2)
                /\ UNCHANGED <<holder, inParser, pstate, sawDirty, pool, owner, held, nbuf, backing>>
WalkEnd(g) == /\ IsCall(g) /\ pc[g][2] = 2
              /\ treeAcc' = {a \in treeAcc : a[1] # g}
              /\ race' = (race \/ \E i \in 1..Len(held[g]) : owner[held[g][i]] # g)   \* appended to a buffer somebody else owns
              /\ Goto(g, IF Op(g) = "callnested" THEN 3 ELSE 5)
              /\ UNCHANGED <<holder, inParser, pstate, sawDirty, pool, owner, held, nbuf, backing>>
\* hook 7 pool.put : truncate and give back the top buffer
Put(g, from, to) ==
  /\ IsCall(g) /\ pc[g][2] = from /\ held[g] # <<>>
  /\ LET b == held[g][Len(held[g])] IN
     /\ pool' = pool \cup {b}
     /\ owner' = [owner EXCEPT ![b] = IF owner[b] = g THEN NoG ELSE @]
     /\ held' = [held EXCEPT ![g] = SubSeq(@, 1, Len(@) - 1)]
  /\ Goto(g, to)
  /\ UNCHANGED <<holder, inParser, pstate, sawDirty, nbuf, backing, treeAcc, race>>
\* the result is copied out of the pooled buffer into a fresh slice (or, mechanism off, handed over)
CopyOutStep(g) == /\ IsCall(g) /\ pc[g][2] = 5
                  /\ backing' = [backing EXCEPT ![g] = IF CopyOut THEN 0 ELSE held[g][1]]
                  /\ Goto(g, 6)
                  /\ UNCHANGED <<holder, inParser, pstate, sawDirty, pool, owner, held, nbuf, treeAcc, race>>
Return(g) == /\ IsCall(g) /\ pc[g][2] = 7
             /\ NextOp(g)
             /\ UNCHANGED <<holder, inParser, pstate, sawDirty, pool, owner, held, nbuf, backing, treeAcc, race>>

Step(g) == \/ Lock(g) \/ RunActions(g) \/ Unlock(g)
           \/ Get(g, 0, 1) \/ WalkBegin(g) \/ WalkEnd(g)
           \/ Get(g, 3, 4) \/ Put(g, 4, 5)            \* nested container of an aggregate / filter operand
           \/ CopyOutStep(g) \/ Put(g, 6, 7) \/ Return(g)
Next == \E g \in G : Step(g)
Spec == Init /\ [][Next]_vars /\ \A g \in G : WF_vars(Step(g))

\* ---------------------------------------------------------------- properties
MutualExclusion == Cardinality(inParser) <= 1
ResidueFree == ~sawDirty                                   \* C19: no Parse ever starts on another call's residue
BufferPrivacy == /\ \A g1 \in G, g2 \in G : g1 # g2 => \A i \in 1..Len(held[g1]), j \in 1..Len(held[g2]) : held[g1][i] # held[g2][j]
                 /\ \A g \in G : \A i \in 1..Len(held[g]), j \in 1..Len(held[g]) : i # j => held[g][i] # held[g][j]
                 /\ \A g \in G : \A i \in 1..Len(held[g]) : held[g][i] \notin pool
ResultsPrivate == \A g \in G : backing[g] = 0            \* C05: a returned slice never shares its array with a pooled buffer
NoRace == ~race
AllDone == \A g \in G : Op(g) = "done"
Terminates == <>AllDone                                    \* no deadlock / lost wake-up on the mutex
PoolConsistent == AllDone => (\A g \in G : held[g] = <<>>) /\ holder = NoG /\ inParser = {} /\ treeAcc = {}
=============================================================================
