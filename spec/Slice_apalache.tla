--------------------------- MODULE Slice_apalache ---------------------------
(* The saturation lemma behind the stand-in magnitudes of Render.tla          *)
(* (BigP31, BigP63, BigM31, BigM63a, BigM63): for an array of length n, a      *)
(* slice bound or step beyond +-(n+1) selects exactly what +-(n+1) selects,    *)
(* for ALL integers -- which TLC, with 32-bit integers, cannot enumerate.      *)
(* Checked by Apalache as an inductive-invariant style query over unbounded    *)
(* Int (Init => Inv at length 0).  Membership form of the Python definition:   *)
(* index i is selected by [s:e:t] iff it lies between the normalised bounds    *)
(* and is congruent to the normalised start modulo the step.                   *)
EXTENDS Integers
VARIABLES
  \* @type: Int;
  s,
  \* @type: Int;
  e,
  \* @type: Int;
  t,
  \* @type: Int;
  n

Sat(x) == IF x > n + 1 THEN n + 1 ELSE IF x < -(n + 1) THEN -(n + 1) ELSE x
\* positive step
NormP(x) == IF x < 0 THEN (IF x + n < 0 THEN 0 ELSE x + n) ELSE (IF x > n THEN n ELSE x)
InP(i, a, b, c) == i >= NormP(a) /\ i < NormP(b) /\ (i - NormP(a)) % c = 0
\* negative step (c < 0): walk down from the normalised start
NormN(x) == IF x < 0 THEN (IF x + n < -1 THEN -1 ELSE x + n) ELSE (IF x > n - 1 THEN n - 1 ELSE x)
InN(i, a, b, c) == i <= NormN(a) /\ i > NormN(b) /\ (NormN(a) - i) % (-c) = 0
\* index
Idx(i, m) == (IF m < 0 THEN m + n ELSE m) = i

Init == s \in Int /\ e \in Int /\ t \in Int /\ t # 0 /\ n \in 0..8
Next == UNCHANGED <<s, e, t, n>>

\* with |step| > n at most the start element can be selected, so the step saturates too
SatLemma ==
  \A i \in 0..7 : i < n =>
     /\ (t > 0 => (InP(i, s, e, t) <=> InP(i, Sat(s), Sat(e), Sat(t))))
     /\ (t < 0 => (InN(i, s, e, t) <=> InN(i, Sat(s), Sat(e), Sat(t))))
     /\ (Idx(i, s) <=> Idx(i, Sat(s)))
=============================================================================
