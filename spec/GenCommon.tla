----------------------------- MODULE GenCommon -----------------------------
(* Shared by the Gen_* enumerators: what a "case" looks like on the wire.   *)
(* A case is printed as one JSON line (PrintT(ToJson(..)) inside an          *)
(* invariant, so TLC prints every distinct state it explores exactly once);  *)
(* the Go replayer executes it against the real library.                     *)
EXTENDS Render, Json

Spell(p, sp) == [sp |-> sp, text |-> PathText(p, sp), stexts |-> StepTexts(p, sp)]

\* expected response in wire form (sets become JSON arrays)
Case(fam, p, doc, sps) ==
  [fam   |-> fam,
   doc   |-> doc,
   path  |-> p,
   texts |-> [i \in 1..Len(sps) |-> Spell(p, sps[i])],
   det   |-> Determined(p, doc),
   fdet  |-> FilterLogDet(p),
   res   |-> Response(p, doc)]

EmitCase(c) == PrintT(ToJson(c))

\* ---- small vocabulary used by several enumerators
ka == <<97>>   kb == <<98>>   kc == <<99>>   kd == <<100>>   ke == <<101>>
N1 == Num(1000)  N2 == Num(2000)  N3 == Num(3000)
Sa == Str(<<97>>)  Sb == Str(<<98>>)
O0 == Obj(<<>>)   A0 == Arr(<<>>)
Oa(x) == Obj(<<KV(ka, x)>>)
Ob(x) == Obj(<<KV(kb, x)>>)
Oab(x, y) == Obj(<<KV(ka, x), KV(kb, y)>>)
Cur(steps) == Path("@", steps, <<>>)
Root(steps) == Path("$", steps, <<>>)
SeqsUpTo(S, n) == UNION {[1..k -> S] : k \in 0..n}
=============================================================================
