---------------------------- MODULE FilterProtoOps --------------------------
(* L2: the filter "value list" protocol -- how the code is meant to achieve    *)
(* what Semantics!Holds demands (C09), without ever writing to memory it does  *)
(* not own (C04: the caller's array; C05/C06: the literal cells of the parsed  *)
(* tree and the package-level emptyList / fullList).                           *)
(*                                                                             *)
(* Every comparator / validator / logical operator overwrites the list it is   *)
(* given; a list of length 1 means "whole match", a list of length n means     *)
(* "per member".  The heap H holds list cells: CALLER (the source array when a *)
(* filter runs on an array), LIT(k) (cells owned by the parsed tree), EMPTYL,   *)
(* FULLL (package level) and fresh cells; H.w is the set of cells written.      *)
(*   NoProtectedWrite : no protected cell is ever written                       *)
(*   Refines          : the decoded selection = {m : Holds(q, m)} when the      *)
(*                      outcome is determined (5.7a), including the n = 1       *)
(*                      ambiguity between "whole match" and "one member"        *)
(* AsCoded = TRUE switches the three protective mechanisms to what the pinned   *)
(* tree had (both-missing == returns the list it was given; the literal is      *)
(* handed out by reference; operands swapped whenever the left one is           *)
(* literal-like): TLC must then find a counterexample -- those (query,          *)
(* container) pairs are the kill queries of the conformance corpus.             *)
EXTENDS Integers, Sequences, TLC, FiniteSets
CONSTANT AsCoded       \* TRUE: the mechanisms as the pinned tree had them; FALSE: as the repaired tree has them

V(ty, n) == [ty |-> ty, n |-> n]
ABSENT == V("absent", 0)
EMPTY  == V("empty", 0)
TRUEV  == V("bool", 1)
Num(n) == V("num", n)
Str(n) == V("str", n)

\* cell ids
CALLER == 0
EMPTYL == 1
FULLL  == 2
LIT(k) == 2 + k          \* k = 1,2
Protected == {CALLER, EMPTYL, FULLL, LIT(1), LIT(2)}

\* heap record: [c: cells (function id -> seq), nx: next fresh id, w: set of written ids]
Alloc(H, s) == [H EXCEPT !.c = (H.nx :> s) @@ H.c, !.nx = H.nx + 1]
Wr(H, id, i, v) == [H EXCEPT !.c[id][i] = v, !.w = H.w \cup {id}]

\* operands: [k: "lit", id: 1|2, v] | [k: "cur", f: "a"|"b"] | [k: "root", f: "x"|"y"]
\* members are records [a |-> val, b |-> val]; root is [x |-> val, y |-> val]; members "identity" is their index

RECURSIVE ValidateFrom(_, _, _, _), CompareFrom(_, _, _, _, _, _)

\* blank entries not of type ty (ty = "any": nothing blanked); returns [H, found]
ValidateFrom(H, id, i, ty) ==
  IF i > Len(H.c[id]) THEN [H |-> H, found |-> FALSE]
  ELSE LET e == H.c[id][i] IN
       IF e.ty = "empty" THEN ValidateFrom(H, id, i + 1, ty)
       ELSE IF ty = "any" \/ e.ty = ty THEN [H |-> ValidateFrom(H, id, i + 1, ty).H, found |-> TRUE]
       ELSE ValidateFrom(Wr(H, id, i, EMPTY), id, i + 1, ty)

\* comparator: blank left entries that do not satisfy op against r; direct EQ does not skip empties
CompareFrom(H, id, i, op, r, direct) ==
  IF i > Len(H.c[id]) THEN [H |-> H, has |-> FALSE]
  ELSE LET e == H.c[id][i] IN
       IF e.ty = "empty" /\ ~direct THEN CompareFrom(H, id, i + 1, op, r, direct)
       ELSE LET sat == CASE op = "==" -> e = r
                        [] op = "<" -> e.ty = "num" /\ e.n < r.n IN
            IF sat THEN [H |-> CompareFrom(H, id, i + 1, op, r, direct).H, has |-> TRUE]
            ELSE CompareFrom(Wr(H, id, i, EMPTY), id, i + 1, op, r, direct)

\* parameter evaluation -> [H, out]
Param(H, o, mems, root, lits) ==
  CASE o.k = "lit" -> IF AsCoded THEN [H |-> H, out |-> LIT(o.id)]
                      ELSE LET H2 == Alloc(H, H.c[LIT(o.id)]) IN [H |-> H2, out |-> H.nx]
    [] o.k = "cur" -> LET s == [i \in 1..Len(mems) |-> IF mems[i][o.f] = ABSENT THEN EMPTY ELSE mems[i][o.f]] IN
                      IF \A i \in 1..Len(s) : s[i] = EMPTY THEN [H |-> H, out |-> EMPTYL]
                      ELSE [H |-> Alloc(H, s), out |-> H.nx]
    [] o.k = "root" -> IF root[o.f] = ABSENT THEN [H |-> H, out |-> EMPTYL]
                       ELSE [H |-> Alloc(H, <<root[o.f]>>), out |-> H.nx]

IsLitLike(o) == o.k \in {"lit", "root"}

RECURSIVE Compute(_, _, _, _, _, _), NotFrom(_, _, _), AndFrom(_, _, _, _), OrFrom(_, _, _, _)

NotFrom(H, id, i) ==
  IF i > Len(H.c[id]) THEN [H |-> H, has |-> FALSE]
  ELSE IF H.c[id][i] = EMPTY THEN [H |-> NotFrom(Wr(H, id, i, TRUEV), id, i + 1).H, has |-> TRUE]
       ELSE NotFrom(Wr(H, id, i, EMPTY), id, i + 1)
AndFrom(H, l, r, i) ==
  IF i > Len(H.c[r]) THEN [H |-> H, has |-> FALSE]
  ELSE IF H.c[r][i] = EMPTY THEN AndFrom(Wr(H, l, i, EMPTY), l, r, i + 1)
       ELSE LET rest == AndFrom(H, l, r, i + 1) IN [H |-> rest.H, has |-> rest.has \/ H.c[l][i] # EMPTY]
OrFrom(H, l, r, i) ==
  IF i > Len(H.c[r]) THEN H
  ELSE IF H.c[r][i] # EMPTY THEN OrFrom(Wr(H, l, i, H.c[r][i]), l, r, i + 1) ELSE OrFrom(H, l, r, i + 1)

\* cur = id of the list the filter node passed in (CALLER for arrays)
Compute(q, H, cur, mems, root, lits) ==
  CASE q.k = "exist" -> Param(H, q.p, mems, root, lits)
    [] q.k = "cmp" ->
        \* parse-time operand order: as coded swaps whenever the left is literal-like;
        \* intended: swap only towards a non-literal-value right operand
        LET swap == IF AsCoded THEN IsLitLike(q.l) ELSE (IsLitLike(q.l) /\ q.r.k # "lit")
            lo == IF swap /\ q.op = "==" THEN q.r ELSE q.l
            ro == IF swap /\ q.op = "==" THEN q.l ELSE q.r
            ty == IF q.op = "<" THEN "num" ELSE IF ro.k = "lit" THEN ro.v.ty ELSE "any"
            direct == q.op = "==" /\ ro.k = "lit"
            pl == Param(H, lo, mems, root, lits)
            vl == ValidateFrom(pl.H, pl.out, 1, ty)
            pr == Param(vl.H, ro, mems, root, lits)
            vr == ValidateFrom(pr.H, pr.out, 1, ty) IN
        IF vl.found /\ vr.found THEN
            LET c == CompareFrom(vr.H, pl.out, 1, q.op, vr.H.c[pr.out][1], direct) IN
            IF c.has THEN [H |-> c.H, out |-> pl.out] ELSE [H |-> c.H, out |-> EMPTYL]
        ELSE IF ~vl.found /\ ~vr.found /\ q.op = "==" /\ ty = "any"
             THEN [H |-> vr.H, out |-> IF AsCoded THEN cur ELSE FULLL]
        ELSE [H |-> vr.H, out |-> EMPTYL]
    [] q.k = "not" ->
        LET r == Compute(q.q, H, cur, mems, root, lits) IN
        IF Len(r.H.c[r.out]) = 1 THEN [H |-> r.H, out |-> IF r.H.c[r.out][1] = EMPTY THEN FULLL ELSE EMPTYL]
        ELSE LET n == NotFrom(r.H, r.out, 1) IN [H |-> n.H, out |-> IF n.has THEN r.out ELSE EMPTYL]
    [] q.k = "and" ->
        LET l == Compute(q.l, H, cur, mems, root, lits) IN
        IF Len(l.H.c[l.out]) = 1 THEN
            (IF l.H.c[l.out][1] = EMPTY THEN l ELSE Compute(q.r, l.H, cur, mems, root, lits))
        ELSE LET r == Compute(q.r, l.H, cur, mems, root, lits) IN
             IF Len(r.H.c[r.out]) = 1 THEN
                 (IF r.H.c[r.out][1] = EMPTY THEN r ELSE [H |-> r.H, out |-> l.out])
             ELSE LET a == AndFrom(r.H, l.out, r.out, 1) IN [H |-> a.H, out |-> IF a.has THEN l.out ELSE EMPTYL]
    [] q.k = "or" ->
        LET l == Compute(q.l, H, cur, mems, root, lits) IN
        IF Len(l.H.c[l.out]) = 1 THEN
            (IF l.H.c[l.out][1] = EMPTY THEN Compute(q.r, l.H, cur, mems, root, lits) ELSE l)
        ELSE LET r == Compute(q.r, l.H, cur, mems, root, lits) IN
             IF Len(r.H.c[r.out]) = 1 THEN
                 (IF r.H.c[r.out][1] = EMPTY THEN [H |-> r.H, out |-> l.out] ELSE r)
             ELSE [H |-> OrFrom(r.H, l.out, r.out, 1), out |-> l.out]

\* what the filter node selects from the final list
Selected(H, out, n) ==
  IF Len(H.c[out]) = n THEN {i \in 1..n : H.c[out][i] # EMPTY}
  ELSE IF H.c[out][1] = EMPTY THEN {} ELSE 1..n

\* ---------------- L1: per-member Boolean semantics
OpV(o, m, root) == CASE o.k = "lit" -> o.v [] o.k = "cur" -> m[o.f] [] o.k = "root" -> root[o.f]
RECURSIVE Holds(_, _, _)
Holds(q, m, root) ==
  CASE q.k = "exist" -> OpV(q.p, m, root) # ABSENT
    [] q.k = "not" -> ~Holds(q.q, m, root)
    [] q.k = "and" -> Holds(q.l, m, root) /\ Holds(q.r, m, root)
    [] q.k = "or" -> Holds(q.l, m, root) \/ Holds(q.r, m, root)
    [] q.k = "cmp" -> LET a == OpV(q.l, m, root)  b == OpV(q.r, m, root) IN
         IF q.op = "<" THEN a.ty = "num" /\ b.ty = "num" /\ a.n < b.n
         ELSE IF a # ABSENT /\ b # ABSENT THEN a = b
         ELSE a = ABSENT /\ b = ABSENT /\ q.l.k # "lit" /\ q.r.k # "lit"
RECURSIVE Det(_, _, _)
Det(q, mems, root) ==
  CASE q.k \in {"and", "or"} -> Det(q.l, mems, root) /\ Det(q.r, mems, root)
    [] q.k = "not" -> Det(q.q, mems, root)
    [] q.k = "cmp" /\ q.op = "==" /\ q.l.k # "lit" /\ q.r.k # "lit" ->
         \A i \in 1..Len(mems) : OpV(q.l, mems[i], root) # ABSENT \/ OpV(q.r, mems[i], root) # ABSENT
    [] OTHER -> TRUE

=============================================================================
