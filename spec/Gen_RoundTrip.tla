---------------------------- MODULE Gen_RoundTrip ----------------------------
(* C18 (model level) and the sentence part of C02/C17: ASTs rendered under   *)
(* every spelling vector are parsed back by Peg + Actions.                   *)
(*   RoundTrip == CleanPath(ParseModel(Render(a, sp))) = Norm(a)             *)
(* ties Render, the generated Grammar and the action fold together: the      *)
(* spelling freedoms really are insignificant to the grammar.                *)
(* Every rendered sentence is also handed to the real parser (family         *)
(* "parse", expected outcome ok).                                            *)
EXTENDS Actions, Json, TLC
CONSTANTS Scope     \* "atoms" | "steps"

ka == <<97>>   kb == <<98>>
N1 == Num(1000)  N15 == Num(1500)  Sa == Str(<<97>>)
Cur(steps) == Path("@", steps, <<>>)
Root(steps) == Path("$", steps, <<>>)

\* every operator x operand kind x order
Operands == {Lit(N1), Cur(<<Nm(ka)>>), Root(<<Nm(kb)>>)}
NumCmps == {Cmp(op, l, r) : op \in {"<", "<=", ">", ">="}, l \in Operands, r \in Operands}
EqOperands == Operands \cup {Lit(Sa), Lit(Bool(TRUE)), Lit(Null), Lit(N15), Lit(Str(<<39, 92, 34>>))}
EqCmps == {Cmp(op, l, r) : op \in {"==", "!="}, l \in EqOperands, r \in EqOperands}
Legal(q) == ~(q.l.k = "path" /\ q.r.k = "path" /\ q.l.root = "@" /\ q.r.root = "@")
Atoms == {q \in NumCmps \cup EqCmps : Legal(q)}
         \cup {Exist(Cur(<<Nm(ka)>>)), NotP(Cur(<<Nm(ka)>>)), Exist(Root(<<>>)), NotP(Root(<<>>)), Exist(Cur(<<Wild>>)),
               Re(Cur(<<Nm(ka)>>), "a"), Re(Cur(<<>>), "^a$"), Re(Root(<<Nm(ka)>>), "b+"),
               Exist(Path("@", <<Nm(ka)>>, <<FF(Fn_f1)>>)), Cmp("==", Path("@", <<>>, <<AF(Fn_g1), AF(Fn_g1)>>), Lit(N1))}
A1 == Exist(Cur(<<Nm(ka)>>))   A2 == Cmp("==", Cur(<<Nm(kb)>>), Lit(N1))   A3 == NotP(Root(<<Nm(ka)>>))
Compound == { And(A1, A2), Or(A1, A2), And(And(A1, A2), A3), Or(Or(A1, A2), A3), Or(A1, And(A2, A3)), And(A1, Paren(Or(A2, A3))),
              Paren(A1), Paren(Paren(A2)), And(Paren(Or(A1, A2)), Paren(Or(A2, A3))), Or(And(A1, A2), And(A2, A3)) }
StepsSet == { Nm(ka), Nm(<<97, 98, 48>>), Wild, Multi(<<Nm(ka), Nm(kb)>>), Multi(<<Wild, Nm(ka)>>), Multi(<<Wild, Wild>>),
              Un(<<Idx(0)>>), Un(<<Idx(-1)>>), Un(<<Idx(1), Idx(0)>>), Un(<<Sl(1, FALSE, 0, TRUE, 1, FALSE)>>),
              Un(<<Sl(0, TRUE, 2, FALSE, -1, FALSE)>>), Un(<<Sl(0, TRUE, 0, TRUE, 2, FALSE)>>), Un(<<Idx(0), Sl(0, FALSE, 1, FALSE, 1, FALSE), Star>>),
              Un(<<Star, Idx(0)>>), Un(<<Idx(BigP63)>>), Un(<<Sl(BigM63, FALSE, BigP31, FALSE, 1, FALSE)>>),
              Flt(A1), Flt(A2), Flt(Or(A1, A3)) }
FuncSeqs == { <<>>, <<FF(Fn_f1)>>, <<AF(Fn_g1)>>, <<FF(Fn_f1), AF(Fn_g1), FF(Fn_f2)>> }

Spells == [q : {39, 34}, brk : BOOLEAN, spc : {0, 1}, omit : BOOLEAN, plus : BOOLEAN, up : BOOLEAN]
Cfg == [ff |-> <<Fn_f1, Fn_f2>>, af |-> <<Fn_g1>>]

VARIABLES ast, sp, ph     \* ph: 0 nothing chosen, 1 AST chosen, 2 spelling chosen (two levels: TLC expands in parallel)
vars == <<ast, sp, ph>>
NoAst == Path("$", <<>>, <<>>)
Init == ast = NoAst /\ sp = Canon /\ ph = 0
PickAst ==
  IF Scope = "atoms" THEN \E q \in Atoms \cup Compound : ast' = Path("$", <<Flt(q)>>, <<>>)
  ELSE \E s1 \in StepsSet, s2 \in StepsSet \cup {Rec}, fs \in FuncSeqs :
         \/ s2 = Rec /\ ast' = Path("$", <<Rec, s1>>, fs)
         \/ s2 # Rec /\ ast' = Path("$", <<s1, s2>>, fs)
         \/ s2 # Rec /\ ast' = Path("$", <<s1, Rec, s2>>, fs)
Next == \/ ph = 0 /\ PickAst /\ sp' = sp /\ ph' = 1
        \/ ph = 1 /\ ast' = ast /\ sp' \in Spells /\ ph' = 2
Spec == Init /\ [][Next]_vars

\* what the parser can know of an AST: no parentheses nodes, && and || left-nested as the grammar parses them
RECURSIVE NormQ(_), NormSteps(_)
NormOp(o) == IF o.k = "lit" THEN o ELSE Path(o.root, NormSteps(o.steps), o.funcs)
NormQ(q) ==
  CASE q.k = "paren" -> NormQ(q.q)
    [] q.k \in {"exist", "not"} -> [k |-> q.k, p |-> NormOp(q.p)]
    [] q.k \in {"and", "or"} -> [k |-> q.k, l |-> NormQ(q.l), r |-> NormQ(q.r)]
    [] q.k = "cmp" -> Cmp(q.op, NormOp(q.l), NormOp(q.r))
    [] q.k = "re" -> Re(NormOp(q.l), q.re)
NormSteps(ss) == [i \in 1..Len(ss) |-> IF ss[i].k = "filter" THEN Flt(NormQ(ss[i].q)) ELSE ss[i]]
Norm(p) == Path(p.root, NormSteps(p.steps), p.funcs)

Text == PathText(ast, sp)
Full == ParseFull(Text, Cfg, ModelTabs)
\* the grammar is an input (generated from the repository): a failed law is printed, not fatal -- see Gen_Keys
LawFail(name) == PrintT(ToJson([fam |-> "lawfail", law |-> name, s |-> Text]))
RoundTrip == ph = 2 => ((Full.out.cls = "ok" /\ CleanPath(Full.out.ast) = Norm(ast)) \/ LawFail("roundtrip"))
\* the step texts Render predicts for error messages are the ones the actions record
ReportedAgree == (ph = 2 /\ Full.out.cls = "ok") => (ReportedTexts(Full.out.ast) = StepTexts(ast, sp) \/ LawFail("reported-texts"))

Emit == ph = 2 => PrintT(ToJson([fam |-> "parse", s |-> Text, cfg |-> Cfg,
                           out |-> [cls |-> "ok", pos |-> 0, why |-> "", text |-> <<>>], asm |-> Full.asm]))
=============================================================================
