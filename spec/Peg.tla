-------------------------------- MODULE Peg --------------------------------
(* Parsing expression grammars, generically.  The grammar itself is DATA:   *)
(* module Grammar is generated from /repo/jsonpath.peg by tools/peg2tla.py  *)
(* on every run, so this interpreter executes the published grammar -- the  *)
(* 85 KB generated Go parser is the thing under test (C17).                 *)
(*                                                                          *)
(* M(e, inp, i) matches expression e against the code-point sequence inp at *)
(* 0-based position i and yields [ok, p, ev]: success, next position, and   *)
(* the capture/action events in the order the generated parser's Execute()  *)
(* visits them (a capture event follows the events nested inside it).       *)
EXTENDS Integers, Sequences
INSTANCE Grammar

Fail == [ok |-> FALSE, p |-> 0, ev |-> <<>>]
Ok(p, ev) == [ok |-> TRUE, p |-> p, ev |-> ev]
InClass(c, rs) == \E i \in 1..Len(rs) : rs[i][1] <= c /\ c <= rs[i][2]

RECURSIVE M(_, _, _), MSeq(_, _, _, _, _), MAlt(_, _, _, _), MStar(_, _, _, _)
M(e, inp, i) ==
  CASE e.k = "lit" ->
         IF i + Len(e.s) <= Len(inp) /\ \A j \in 1..Len(e.s) : inp[i + j] = e.s[j]
         THEN Ok(i + Len(e.s), <<>>) ELSE Fail
    [] e.k = "any" -> IF i < Len(inp) THEN Ok(i + 1, <<>>) ELSE Fail
    [] e.k = "cls" -> IF i < Len(inp) /\ (InClass(inp[i + 1], e.rs) # e.neg) THEN Ok(i + 1, <<>>) ELSE Fail
    [] e.k = "nt"  -> M(Rule(e.n), inp, i)
    [] e.k = "seq" -> MSeq(e.es, 1, inp, i, <<>>)
    [] e.k = "alt" -> MAlt(e.es, 1, inp, i)
    [] e.k = "opt" -> LET r == M(e.e, inp, i) IN IF r.ok THEN r ELSE Ok(i, <<>>)
    [] e.k = "star" -> MStar(e.e, inp, i, <<>>)
    [] e.k = "plus" -> LET r == M(e.e, inp, i) IN IF r.ok THEN MStar(e.e, inp, r.p, r.ev) ELSE Fail
    [] e.k = "not" -> LET r == M(e.e, inp, i) IN IF r.ok THEN Fail ELSE Ok(i, <<>>)
    [] e.k = "and" -> LET r == M(e.e, inp, i) IN IF r.ok THEN Ok(i, <<>>) ELSE Fail
    [] e.k = "cap" -> LET r == M(e.e, inp, i) IN
                      IF r.ok THEN Ok(r.p, Append(r.ev, [a |-> -1, b |-> i, e |-> r.p])) ELSE Fail
    [] e.k = "act" -> Ok(i, << [a |-> e.id, b |-> i, e |-> i] >>)
MSeq(es, n, inp, i, ev) ==
  IF n > Len(es) THEN Ok(i, ev)
  ELSE LET r == M(es[n], inp, i) IN IF r.ok THEN MSeq(es, n + 1, inp, r.p, ev \o r.ev) ELSE Fail
MAlt(es, n, inp, i) ==
  IF n > Len(es) THEN Fail
  ELSE LET r == M(es[n], inp, i) IN IF r.ok THEN r ELSE MAlt(es, n + 1, inp, i)
\* pointlander/peg stops a repetition when an iteration fails; an iteration that succeeds
\* without consuming input would loop for ever, so the grammar never contains one
MStar(e, inp, i, ev) ==
  LET r == M(e, inp, i) IN
  IF r.ok /\ r.p > i THEN MStar(e, inp, r.p, ev \o r.ev)
  ELSE Ok(i, IF r.ok THEN ev \o r.ev ELSE ev)

Match(inp) == M([k |-> "nt", n |-> StartRule], inp, 0)
\* the longest prefix rule `jsonpath` accepts (C17: where "unrecognized input" points)
PrefixEnd(inp) == LET r == M([k |-> "nt", n |-> "jsonpath"], inp, 0) IN IF r.ok THEN r.p ELSE 0
=============================================================================
