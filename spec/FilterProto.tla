---------------------------- MODULE FilterProto ----------------------------
(* One filter evaluation of the value-list protocol (operators: module        *)
(* FilterProtoOps, where the protocol is described): all queries x all small   *)
(* (root, member list) combinations.  See FilterProtoHist for call sequences.  *)
EXTENDS FilterProtoOps
CONSTANT PDepth       \* 1: atoms and negated atoms; 2: all && / || pairs of them

\* ---------------- model
Vals == {ABSENT, Num(1), Num(2), Str(1)}
Mems == [a : Vals, b : {ABSENT, Num(1)}]
Roots == [x : {ABSENT, Num(1), Num(2)}, y : {ABSENT, Num(1)}]
Lit1 == [k |-> "lit", id |-> 1, v |-> Num(1)]
Lit2 == [k |-> "lit", id |-> 2, v |-> Num(2)]
Ops == {Lit1, Lit2, [k |-> "cur", f |-> "a"], [k |-> "cur", f |-> "b"], [k |-> "root", f |-> "x"], [k |-> "root", f |-> "y"]}
TwoCur(l, r) == l.k = "cur" /\ r.k = "cur"
Atoms == {[k |-> "exist", p |-> o] : o \in {o \in Ops : o.k # "lit"}}
         \cup {[k |-> "cmp", op |-> "==", l |-> pr[1], r |-> pr[2]] : pr \in {pp \in Ops \X Ops : ~TwoCur(pp[1], pp[2])}}
         \cup {[k |-> "cmp", op |-> "<", l |-> l, r |-> r] : l \in {o \in Ops : o.k = "cur"}, r \in {o \in Ops : o.k # "cur"}}
L1q == Atoms \cup {[k |-> "not", q |-> a] : a \in Atoms}
Queries == L1q \cup (IF PDepth >= 2 THEN {[k |-> op, l |-> a, r |-> b] : op \in {"and", "or"}, a \in L1q, b \in L1q} ELSE {})

VARIABLES q, mems, root, ph
Init == q \in Queries /\ root = [x |-> ABSENT, y |-> ABSENT] /\ mems = <<>> /\ ph = 0
Next == ph = 0 /\ ph' = 1 /\ UNCHANGED q /\ root' \in Roots /\ mems' \in UNION {[1..n -> Mems] : n \in 0..2}
Spec == Init /\ [][Next]_<<q, mems, root, ph>>

H0 == [c |-> (CALLER :> [i \in 1..Len(mems) |-> V("member", i)]) @@ (EMPTYL :> <<EMPTY>>) @@ (FULLL :> <<TRUEV>>)
             @@ (LIT(1) :> <<Num(1)>>) @@ (LIT(2) :> <<Num(2)>>),
       nx |-> 10, w |-> {}]
Res == Compute(q, H0, CALLER, mems, root, <<>>)

NoProtectedWrite == ph = 1 => Res.H.w \cap Protected = {}
Refines == (ph = 1 /\ Len(mems) > 0 /\ Det(q, mems, root)) =>
              Selected(Res.H, Res.out, Len(mems)) = {i \in 1..Len(mems) : Holds(q, mems[i], root)}
=============================================================================
