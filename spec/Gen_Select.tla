----------------------------- MODULE Gen_Select -----------------------------
(* Enumerates (document, path) pairs: every sequence of up to MaxLen steps   *)
(* over the step alphabet Sigma (each also directly after `..`), optionally  *)
(* followed by trailing functions, over the document set Docs.               *)
(* Model-level laws of the semantics (C08 Compose, C13 LocsExact, C03        *)
(* FailsIffEmpty) are invariants; Emit hands every case to the replayer.     *)
EXTENDS GenCommon
CONSTANTS MaxLen,      \* number of steps (a `..X` pair counts as one)
          Scope,       \* "pairs" | "triples"  which alphabet/doc set
          WithFuncs,   \* BOOLEAN: also explore trailing function sequences
          Spellings,   \* "canon" | "all"
          DocSet,      \* "small" | "full"
          FuncSet      \* "small" | "full"   which trailing function sequences

\* spelling checks (C18) also need a key outside ASCII, with a document that holds it
kE == <<233>>
Scalars == {Null, Bool(TRUE), N1, N2, Sa}
Inner == {N1, Sa, Null, A0, O0, Arr(<<N1, N2>>), Arr(<<Oa(N1)>>),
          Oa(N1), Oab(N2, N1), Ob(Oa(N1)), Oa(Arr(<<N1, N2>>))}
ObjsOver(S) == {O0} \cup {Oa(x) : x \in S} \cup {Ob(x) : x \in S} \cup {Oab(x, y) : x \in S, y \in S}
\* discriminators without which a wrong traversal is invisible: three levels with sibling
\* containers, arrays of length 3/4, arrays holding arrays, a key also present deeper
Deep == { Arr(<<Oa(Oa(N1)), Oa(N2)>>),
          Arr(<<N1, N2, N3>>),
          Arr(<<N1, Arr(<<N2, N3>>), Oa(N1), Sa>>),
          Oab(Arr(<<Oa(N1), Oab(N2, N1)>>), Oa(Ob(N1))),
          Oab(Oab(N1, Arr(<<N2>>)), Arr(<<Arr(<<N1>>), Arr(<<>>)>>)),
          Arr(<<Arr(<<N1, N2>>), Arr(<<N3>>)>>),
          Oa(Oa(Oa(N1))),
          Arr(<<Oab(N1, N2), Oab(N2, N1), Ob(N1)>>),
          Arr(<<O0>>), Oa(O0), Arr(<<O0, Oa(N1)>>), Arr(<<A0, Arr(<<N1>>)>>),
          \* arrays directly inside arrays with objects below; an array of arrays behind a single-valued step
          Arr(<<Arr(<<Oa(N1), Oa(N2)>>), Oa(N3)>>), Oa(Arr(<<Arr(<<N1, N2>>), Arr(<<N3>>)>>)),
          \* members that are present with the value null (present is not the same as non-nil)
          Oab(Null, N1), Arr(<<Oab(Null, Null), Oa(Null)>>),
          \* keys that differ between levels: a stale/aliased key buffer of an outer object shows
          Oab(Obj(<<KV(kc, N1), KV(kd, N2)>>), Obj(<<KV(kc, N3), KV(ke, N1)>>)),
          Obj(<<KV(ka, Obj(<<KV(kd, Oa(N1)), KV(ke, N2)>>)), KV(kb, Oab(N1, N2)), KV(kc, Obj(<<KV(ka, N3), KV(ke, Sa)>>))>>) }
InnerQ == {N1, Sa, A0, Oa(N1), Arr(<<N1, N2>>), Oab(N2, N1)}
InnerP == IF DocSet = "small" THEN InnerQ ELSE Inner
InnerO == IF DocSet = "small" THEN {N1, Oa(N1), Arr(<<N1, N2>>), Oab(N2, N1)} ELSE Inner
DocsPairs == Scalars \cup {Arr(s) : s \in SeqsUpTo(InnerP, 2)} \cup ObjsOver(InnerO) \cup Deep
InnerT == IF DocSet = "small" THEN {N1, A0, Arr(<<N1, N2>>), Oa(N1), Oab(N2, N1), Oa(Arr(<<N1, N2>>))}
          ELSE {N1, Sa, A0, O0, Arr(<<N1, N2>>), Oa(N1), Oab(N2, N1), Oa(Arr(<<N1, N2>>))}
DocsTriples == {N1} \cup {Arr(s) : s \in SeqsUpTo(InnerT, 2)} \cup {Oab(x, y) : x \in InnerT, y \in InnerT} \cup Deep
DocsSpell == IF Spellings \in {"all", "all64"} THEN {Obj(<<KV(ka, N1), KV(kE, Oa(N2))>>), Arr(<<Obj(<<KV(kE, N1)>>)>>)} ELSE {}
\* "rec": sibling subtrees of the same shape, two levels of them: a nested `..` walks many similar subtrees in one retrieval
RecTree(k) == Obj(<<KV(kc, Oa(Ob(Num(1000 * k)))), KV(kd, Oa(Ob(Num(1000 * (k + 1))))), KV(ke, Oa(Oab(N1, Num(1000 * (k + 2)))))>>)
RecDocs == { Obj(<<KV(kc, RecTree(0)), KV(kd, RecTree(3))>>), Arr(<<RecTree(0), RecTree(3), RecTree(6)>>) }
\* "errs": which error is reported when every branch fails -- members failing at different depths and in different
\* ways, in both key orders, in objects and arrays, with explicit nulls among the array elements
ErrA == Oa(Obj(<<KV(kc, N1)>>))      \* {"a":{"c":1}}: .a.b is a missing member at depth 2
ErrDocs == { Obj(<<KV(kc, ErrA), KV(kd, Ob(N1))>>), Obj(<<KV(kc, Ob(N1)), KV(kd, ErrA)>>),
             Obj(<<KV(kc, ErrA), KV(kd, Oa(N2))>>), Obj(<<KV(kc, Oa(N2)), KV(kd, ErrA)>>),
             Arr(<<ErrA, Ob(N1)>>), Arr(<<Ob(N1), ErrA>>), Arr(<<ErrA, Oa(N2)>>), Arr(<<Oa(N2), ErrA>>),
             Arr(<<Null, Null>>), Arr(<<Null, Oa(N1)>>), Arr(<<Oa(Null), Null, N1>>), Obj(<<KV(kc, Arr(<<Null, Null>>)), KV(kd, Null)>>) }
Docs == IF DocSet = "errs" THEN ErrDocs ELSE IF DocSet = "rec" THEN RecDocs ELSE IF DocSet = "tiny" THEN Deep ELSE (IF Scope \in {"pairs", "extras"} THEN DocsPairs ELSE DocsTriples) \cup DocsSpell

Pa == Cur(<<Nm(ka)>>)   Pb == Cur(<<Nm(kb)>>)
Queries == {
  Exist(Pa), Exist(Cur(<<>>)), NotP(Pa), Exist(Root(<<Nm(kb)>>)), Exist(Cur(<<Wild>>)),
  Cmp("==", Pa, Lit(N1)), Cmp("==", Lit(N1), Pa), Cmp("!=", Pa, Lit(N1)),
  Cmp("==", Cur(<<>>), Lit(Sa)), Cmp("==", Cur(<<>>), Lit(Null)), Cmp("==", Cur(<<>>), Lit(Bool(TRUE))),
  Cmp("==", Pa, Root(<<Nm(kb)>>)), Cmp("!=", Pa, Root(<<Nm(kb)>>)),
  Cmp("==", Root(<<Nm(ka)>>), Lit(N1)), Cmp("==", Lit(N1), Root(<<Nm(ka)>>)),
  Cmp("<", Pa, Lit(N2)), Cmp(">=", Cur(<<>>), Lit(N2)), Cmp("<", Lit(N1), Pa),
  Cmp(">", Pa, Root(<<Nm(kb)>>)), Cmp("<=", Root(<<Nm(kb)>>), Pa),
  Re(Cur(<<>>), "a"),
  And(Exist(Pa), Exist(Pb)),
  Or(Cmp("==", Pa, Lit(N1)), Exist(Root(<<Nm(kb)>>))),
  And(NotP(Root(<<Nm(kb)>>)), Exist(Pa)),
  Or(Cmp("!=", Pa, Root(<<Nm(kb)>>)), Exist(Pb)),
  Exist(Cur(<<Flt(Exist(Cur(<<>>)))>>)),
  Exist(Cur(<<Un(<<Idx(0)>>)>>)),
  \* functions inside filter operands (names fid / gcnt are reserved for operands)
  Cmp(">", Path("@", <<>>, <<AF(Fn_gcnt)>>), Lit(N1)),
  Cmp("==", Path("@", <<Nm(ka)>>, <<FF(Fn_fid)>>), Lit(N1)),
  Exist(Path("@", <<Wild>>, <<AF(Fn_gcnt), FF(Fn_fid)>>))
}
QueriesQ == {
  Exist(Pa), Exist(Cur(<<>>)), NotP(Pa), Exist(Root(<<Nm(kb)>>)),
  Cmp("==", Pa, Lit(N1)), Cmp("==", Lit(N1), Pa), Cmp("!=", Pa, Lit(N1)), Cmp("==", Cur(<<>>), Lit(Sa)),
  Cmp("==", Pa, Root(<<Nm(kb)>>)), Cmp("!=", Pa, Root(<<Nm(kb)>>)), Cmp("==", Root(<<Nm(ka)>>), Lit(N1)),
  Cmp("<", Pa, Lit(N2)), Cmp(">", Pa, Root(<<Nm(kb)>>)), Cmp("<", Lit(N1), Pa), Re(Cur(<<>>), "a"),
  And(Exist(Pa), Exist(Pb)), Or(Cmp("!=", Pa, Root(<<Nm(kb)>>)), Exist(Pb)),
  NotP(Root(<<>>)), And(Exist(Root(<<>>)), Exist(Pa)),
  Cmp(">", Path("@", <<>>, <<AF(Fn_gcnt)>>), Lit(N1)), Cmp("==", Path("@", <<Nm(ka)>>, <<FF(Fn_fid)>>), Lit(N1)) }
\* special-purpose queries (scope "extras": each with a few plain steps around it)
QueriesX == {
  \* a bare `@` under a logical operator; an aggregate that fails / whose path holds a nested filter with a `$` operand;
  \* a probe function in the right operand of && (it looks at the document during the call)
  And(Exist(Cur(<<>>)), Exist(Pa)), Or(Exist(Cur(<<>>)), Exist(Pb)),
  And(Exist(Cur(<<Nm(ka), Un(<<Sl(0, TRUE, 0, TRUE, 1, TRUE)>>)>>)), Exist(Pb)),
  Cmp(">", Path("@", <<>>, <<AF(Fn_gerr)>>), Lit(N1)),
  Cmp(">", Path("@", <<Flt(Cmp("!=", Cur(<<>>), Root(<<Nm(kb)>>)))>>, <<AF(Fn_gcnt)>>), Lit(Num(0))),
  And(Exist(Pa), Exist(Path("@", <<Nm(kb)>>, <<FF(Fn_fprobe)>>))),
  Cmp("<", Pa, Path("$", <<Nm(kb)>>, <<FF(Fn_fid)>>)),
  \* functions chained directly on `@` (the member itself, scalar or not, flows through both)
  Cmp("==", Path("@", <<>>, <<FF(Fn_fid), FF(Fn_fid)>>), Lit(N1)), Exist(Path("@", <<>>, <<FF(Fn_fid), AF(Fn_gcnt)>>)),
  \* a `$` operand inside a filter nested in an `@` operand (the root must stay the document)
  Exist(Cur(<<Flt(Cmp("==", Cur(<<>>), Root(<<Nm(kb)>>)))>>)), Exist(Cur(<<Nm(ka), Flt(Cmp("!=", Cur(<<>>), Root(<<Nm(ka), Un(<<Idx(0)>>)>>)))>>)) }
QueriesT == { Exist(Pa), Cmp("==", Pa, Lit(N1)), Cmp("<", Pa, Lit(N2)), Exist(Cur(<<>>)),
              Cmp(">", Path("@", <<>>, <<AF(Fn_gcnt)>>), Lit(N1)), Cmp("==", Path("@", <<Nm(ka)>>, <<FF(Fn_fid)>>), Lit(N1)) }

Brackets == { Multi(<<Nm(ka), Nm(kb)>>), Multi(<<Nm(kb), Nm(ka), Nm(ka)>>),
              Multi(<<Wild, Nm(ka)>>), Multi(<<Wild, Wild>>),
              Un(<<Idx(0)>>), Un(<<Idx(-1)>>), Un(<<Idx(1), Idx(0)>>), Un(<<Idx(0), Idx(0)>>),
              Un(<<Sl(1, FALSE, 0, TRUE, 1, TRUE)>>), Un(<<Sl(0, TRUE, 0, TRUE, -1, FALSE)>>),
              Un(<<Sl(0, TRUE, 0, TRUE, 2, FALSE)>>), Un(<<Idx(0), Sl(0, FALSE, 1, FALSE, 1, TRUE), Star>>),
              Un(<<Star, Idx(0)>>), Un(<<Sl(0, TRUE, 0, TRUE, 1, TRUE)>>) }
SigmaPairs == {Nm(ka), Nm(kb), Wild} \cup Brackets \cup {Flt(q) : q \in (IF DocSet = "small" THEN QueriesQ ELSE Queries \cup QueriesQ)}
SigmaTriples == {Nm(ka), Nm(kb), Wild, Multi(<<Nm(ka), Nm(kb)>>), Multi(<<Wild, Wild>>), Multi(<<Wild, Nm(ka)>>),
                 Un(<<Idx(0)>>), Un(<<Idx(1), Idx(0)>>), Un(<<Sl(0, TRUE, 0, TRUE, -1, FALSE)>>), Un(<<Star, Idx(0)>>), Un(<<Sl(0, TRUE, 0, TRUE, 1, TRUE)>>)}
                \cup {Flt(q) : q \in QueriesT}
\* non-ASCII key for the spelling checks
SigmaSpell == IF Spellings \in {"all", "all64"} THEN {Nm(kE), Multi(<<Nm(kE), Nm(ka)>>)} ELSE {}
SigmaExtras == {Nm(ka), Nm(kb), Wild, Un(<<Idx(0)>>), Multi(<<Nm(ka), Nm(kb)>>), Un(<<Sl(0, TRUE, 0, TRUE, 1, TRUE)>>)} \cup {Flt(q) : q \in QueriesX}
SigmaRec == {Nm(ka), Nm(kb), Wild, Multi(<<Nm(kc), Nm(kd)>>)}
SigmaErr == {Nm(ka), Nm(kb), Wild, Flt(Exist(Cur(<<>>))), Flt(Exist(Pa)), Un(<<Sl(0, FALSE, 2, FALSE, 1, TRUE)>>), Un(<<Idx(0)>>)}
Sigma == (IF Scope = "errs" THEN SigmaErr ELSE IF Scope = "recrec" THEN SigmaRec ELSE IF Scope = "pairs" THEN SigmaPairs ELSE IF Scope = "extras" THEN SigmaExtras ELSE SigmaTriples) \cup SigmaSpell

F1 == {FF(Fn_f1), FF(Fn_fodd), FF(Fn_ferr), AF(Fn_g1), AF(Fn_gerr)}
F2 == {FF(Fn_f2), AF(Fn_g2), FF(Fn_f3)}
FSeqsSmall == { <<FF(Fn_f1)>>, <<AF(Fn_g1)>>, <<FF(Fn_ferr)>>, <<AF(Fn_gerr)>>, <<FF(Fn_fodd), FF(Fn_ferr)>>,
                <<FF(Fn_fodd), FF(Fn_f2), AF(Fn_g2)>>, <<AF(Fn_gid), AF(Fn_g2)>>, <<AF(Fn_g1), FF(Fn_f2)>>, <<AF(Fn_gid)>> }
FSeqsFull == {<<FF(Fn_fodd), FF(Fn_ferr)>>} \cup {<<x>> : x \in F1} \cup {<<x, y>> : x \in F1, y \in F2}
         \cup {<<AF(Fn_gid)>>, <<AF(Fn_gid), AF(Fn_g2)>>, <<FF(Fn_f1), AF(Fn_g1), FF(Fn_f2)>>, <<AF(Fn_g1), AF(Fn_g2), FF(Fn_f3)>>, <<FF(Fn_fodd), FF(Fn_f2), AF(Fn_g2)>>}
FSeqs == IF FuncSet = "small" THEN FSeqsSmall ELSE FSeqsFull

AllSp == [q : {39, 34}, brk : BOOLEAN, spc : {0, 1}, omit : BOOLEAN, plus : BOOLEAN, up : BOOLEAN]
RECURSIVE SetToSeqSp(_)
SetToSeqSp(S) == IF S = {} THEN <<>> ELSE LET x == CHOOSE y \in S : TRUE IN <<x>> \o SetToSeqSp(S \ {x})
SpList == IF Spellings = "canon" THEN <<Canon>>
          ELSE IF Spellings = "omit" THEN <<Canon, [Canon EXCEPT !.omit = TRUE], [Canon EXCEPT !.omit = TRUE, !.brk = TRUE]>>
          ELSE IF Spellings = "all64" THEN <<Canon>> \o SetToSeqSp(AllSp \ {Canon})
          ELSE <<Canon,
                 [Canon EXCEPT !.spc = 1], [Canon EXCEPT !.spc = 2], [Canon EXCEPT !.spc = 3], [Canon EXCEPT !.spc = 4], [Canon EXCEPT !.q = 34], [Canon EXCEPT !.brk = TRUE],
                 [Canon EXCEPT !.omit = TRUE], [Canon EXCEPT !.plus = TRUE], [Canon EXCEPT !.up = TRUE],
                 [q |-> 34, brk |-> TRUE, spc |-> 1, omit |-> TRUE, plus |-> TRUE, up |-> TRUE],
                 [q |-> 39, brk |-> TRUE, spc |-> 0, omit |-> TRUE, plus |-> TRUE, up |-> FALSE]>>

VARIABLES doc, steps, funcs, n
vars == <<doc, steps, funcs, n>>
Init == doc \in Docs /\ steps = <<>> /\ funcs = <<>> /\ n = 0
Next == /\ funcs = <<>>
        /\ UNCHANGED doc
        /\ \/ /\ n < MaxLen
              /\ n' = n + 1
              /\ UNCHANGED funcs
              /\ \/ \E s \in Sigma : steps' = Append(steps, s)
                 \/ \E s \in Sigma : steps' = steps \o <<Rec, s>>
           \/ /\ WithFuncs
              /\ UNCHANGED <<steps, n>>
              /\ \E fs \in FSeqs : funcs' = fs
Spec == Init /\ [][Next]_vars

ThePath == Path("$", steps, funcs)

\* ---------------- laws of the semantics itself (a failure here is a bug in the spec)
SplitOK(k) == k >= 1 /\ k < Len(steps) /\ steps[k].k # "rec"
LawCompose == funcs = <<>> => \A k \in 1..Len(steps) : SplitOK(k) => Compose(steps, doc, k)
LawLocs == LocsExact(ThePath, doc)
LawFailsIffEmpty == FailsIffEmpty(ThePath, doc)

Emit == EmitCase(Case("sel", ThePath, doc, SpList))
=============================================================================
