----------------------------- MODULE Gen_AccHist -----------------------------
(* C13 as a state machine: the caller's heap is a document; a retrieval in      *)
(* accessor mode yields one accessor per selected location (Select.loc); then    *)
(* a history of                                                                 *)
(*     Set(i, v)     through accessor i          heap' = Put(heap, loc_i, v)     *)
(*     Mutate(j, v)  the caller updates the map entry / array element of         *)
(*                   result j directly           heap' = Put(heap, loc_j, v)     *)
(*     Other(o)      an UNRELATED retrieval in accessor mode (another path,      *)
(*                   another document): a stuttering step of this machine --     *)
(*                   heap and accessors are what they were -- but a real call    *)
(*                   of the library, whose accessors the caller also keeps       *)
(* and after every operation EVERY accessor's Get() must read At(heap, loc)      *)
(* (Get is live; two accessors of one location see each other's writes; an       *)
(* accessor of a container sees writes to its leaves).  Writes go to leaf        *)
(* results only: replacing a container would detach the accessors below it,      *)
(* about which the property says nothing.                                        *)
EXTENDS GenCommon
CONSTANT MaxOps

kd2 == <<100>>
D1 == Obj(<<KV(ka, Obj(<<KV(kb, N1), KV(kc, N2)>>)), KV(kd2, Arr(<<N3, Num(4000), Obj(<<KV(ke, Num(5000))>>)>>))>>)
D2 == Arr(<<Arr(<<N1, N2>>), Arr(<<N3>>), Num(4000)>>)
D3 == Obj(<<KV(ka, N1), KV(kb, N2)>>)
Docs == <<D1, D2, D3>>
Paths == << Path("$", <<Rec, Wild>>, <<>>), Path("$", <<Nm(ka), Wild>>, <<>>), Path("$", <<Nm(kd2), Wild>>, <<>>),
            Path("$", <<Nm(kd2), Un(<<Idx(0), Idx(0)>>)>>, <<>>), Path("$", <<Multi(<<Nm(ka), Nm(ka), Nm(kb)>>)>>, <<>>),
            Path("$", <<Nm(kd2), Flt(Cmp(">", Cur(<<>>), Lit(N3)))>>, <<>>), Path("$", <<Rec, Flt(Exist(Cur(<<Nm(ke)>>)))>>, <<>>),
            Path("$", <<Nm(ka), Multi(<<Nm(kc), Nm(kb)>>)>>, <<>>), Path("$", <<Un(<<Sl(0, TRUE, 0, TRUE, -1, FALSE)>>)>>, <<>>),
            Path("$", <<Wild, Wild>>, <<>>), Path("$", <<Multi(<<Wild, Wild>>)>>, <<>>), Path("$", <<Rec, Un(<<Idx(-1)>>)>>, <<>>) >>
Sentinels == [n \in 1..MaxOps |-> Str(<<83, 48 + n>>)]

VARIABLES d, p, heap, ops
vars == <<d, p, heap, ops>>
Res == Response(Paths[p], Docs[d])
Leaf(i) == ~IsCont(Res.vals[i].v)
Init == d \in 1..Len(Docs) /\ p \in 1..Len(Paths) /\ heap = Docs[d] /\ ops = <<>>
Others == 1..3
NOthers == Cardinality({k \in 1..Len(ops) : ops[k].k = "other"})
Gets(h) == [j \in 1..Len(Res.vals) |-> At(h, Res.vals[j].loc)]
Next == /\ Res.ok /\ Len(ops) < MaxOps /\ UNCHANGED <<d, p>>
        /\ \/ /\ NOthers < 2 /\ UNCHANGED heap
              /\ \E o \in Others : ops' = Append(ops, [k |-> "other", i |-> o, v |-> Null, gets |-> Gets(heap), heap |-> heap])
           \/ \E i \in 1..Len(Res.vals), kind \in {"set", "mutate"} :
             /\ Res.vals[i].set /\ Leaf(i)
             /\ LET v == Sentinels[Len(ops) + 1] IN
                /\ heap' = Put(heap, Res.vals[i].loc, v)
                /\ ops' = Append(ops, [k |-> kind, i |-> i, v |-> v,
                                       gets |-> [j \in 1..Len(Res.vals) |-> At(Put(heap, Res.vals[i].loc, v), Res.vals[j].loc)],
                                       heap |-> Put(heap, Res.vals[i].loc, v)])
Spec == Init /\ [][Next]_vars

\* SetExact: an operation changes the one location it addresses and nothing else
LawSetExact == \A k \in 1..Len(ops) :
                 LET before == IF k = 1 THEN Docs[d] ELSE ops[k - 1].heap IN
                 ops[k].heap = IF ops[k].k = "other" THEN before ELSE Put(before, Res.vals[ops[k].i].loc, ops[k].v)
\* GetLive: what every accessor must read is the heap at its location
LawGetLive == \A k \in 1..Len(ops) : \A j \in 1..Len(Res.vals) : ops[k].gets[j] = At(ops[k].heap, Res.vals[j].loc)
Emit == (Res.ok /\ ops # <<>>) => PrintT(ToJson([fam |-> "acchist", doc |-> Docs[d], text |-> PathText(Paths[p], Canon), path |-> Paths[p],
                                                  locs |-> [j \in 1..Len(Res.vals) |-> Res.vals[j].loc], ops |-> ops]))
=============================================================================
