----------------------------- MODULE Trace_Parse -----------------------------
(* Direction B for the parser (C02, C17, C16): records of what the real      *)
(* Parse did with a string are validated against Peg + Actions.  A record    *)
(* carries the string as code points (what the generated parser sees), the   *)
(* registered function names, the observed outcome, and side tables with the *)
(* Go standard library's verdicts on every number / regex text in it.        *)
(* Records are independent: chunks are expanded in parallel.  A mismatch is  *)
(* printed (one line per rejected record) instead of stopping at the first.  *)
EXTENDS Actions, Json, TLC
CONSTANTS TraceFile, ChunkSize

Trace == ndJsonDeserialize(TraceFile)
NChunks == (Len(Trace) + ChunkSize - 1) \div ChunkSize

VARIABLES c, l
Init == c = 0 /\ l = 0
Next == \/ c = 0 /\ l = 0 /\ c' \in 1..NChunks /\ l' = 0
        \/ c > 0 /\ l = 0 /\ c' = c /\ l' \in ((c - 1) * ChunkSize + 1)..(IF c * ChunkSize < Len(Trace) THEN c * ChunkSize ELSE Len(Trace))
Spec == Init /\ [][Next]_<<c, l>>

Agree(m, rec) ==
  /\ m.cls = rec.out.cls
  /\ m.cls = "syntax" => (m.pos = rec.out.pos /\ m.why = rec.out.why)
  /\ m.cls \in {"arg", "fnf", "nsup"} => m.text = rec.out.text
Check(rec) ==
  LET m == ParseModel(rec.s, rec.cfg, rec.tabs) IN
  IF Agree(m, rec) THEN TRUE
  ELSE PrintT(ToJson([mismatch |-> rec.id, model |-> [cls |-> m.cls, pos |-> m.pos, why |-> m.why, text |-> m.text], real |-> rec.out]))
Inv == l > 0 => Check(Trace[l])
=============================================================================
