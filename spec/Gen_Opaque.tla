------------------------------ MODULE Gen_Opaque ------------------------------
(* C20: Go values that encoding/json never produces are opaque leaves.         *)
(* Documents are small templates whose leaves are numbers or opaque values of  *)
(* one Go type per case (the harness holds the table of ~20 types); TLC picks   *)
(* which leaves are replaced.  The reference semantics treats an opaque value   *)
(* as a scalar of its own kind: returned, existence-testable, deep-equal only   *)
(* to the same value (never, for types that are not DeepEqual to themselves),   *)
(* never matched by literals / orderings / regular expressions, and every       *)
(* navigation step applied to it is a type mismatch naming its Go type.         *)
EXTENDS GenCommon
CONSTANTS MaxLen, Templates,   \* Templates: "few" | "all"
          TypeSet             \* "all" | "six" | "containers" (typed maps and slices: what a sloppy "is it an array?" test would navigate)

\* Go types of the harness table usable as leaves (14 and 19 are typed nil containers: JSON-typed)
LeafTypes == {0, 1, 2, 3, 4, 5, 6, 7, 8, 9, 10, 11, 12, 13, 15, 16, 17, 18, 20, 21, 22}      \* 22: *interface{} pointing at a JSON object
SelfEq(ty) == ty # 15                 \* a non-nil func is not reflect.DeepEqual to itself
IdLess(ty) == ty \in {1, 2, 13}       \* struct{}{}, opqEmpty{}, (*int)(nil): one value per type
Op(id, ty) == Opq(IF IdLess(ty) THEN 1 ELSE id, ty, SelfEq(ty))
Leaves(ty) == IF MaxLen = 1 THEN {N1, Sa, Op(1, ty), Op(2, ty)} ELSE {N1, Op(1, ty), Op(2, ty)}

DocsOf(ty) ==
  LET L == Leaves(ty) IN
  {Op(1, ty)}      \* the document itself is the opaque value
  \cup {Oab(x, y) : x \in L, y \in L} \cup {Arr(<<Oa(x), Oa(y), Oab(x, N1)>>) : x \in L, y \in L}
  \cup {Oab(Arr(<<Oa(x), Oa(N1), Oa(Sa)>>), y) : x \in L, y \in L}     \* `$.a[?(@.a < $.b)]`: members against a `$` operand
  \cup (IF Templates = "all" THEN {Oa(Arr(<<x, y>>)) : x \in L, y \in L} \cup {Arr(<<x, Oa(y)>>) : x \in L, y \in L} ELSE {})

Pa == Cur(<<Nm(ka)>>)
Sigma == { Nm(ka), Nm(kb), Wild, Un(<<Idx(0)>>), Un(<<Idx(1), Idx(0)>>), Multi(<<Nm(ka), Nm(kb)>>),
           Flt(Exist(Pa)), Flt(Exist(Cur(<<>>))), Flt(NotP(Pa)),
           Flt(Cmp("==", Pa, Root(<<Nm(kb)>>))), Flt(Cmp("!=", Pa, Root(<<Nm(kb)>>))), Flt(Cmp("==", Cur(<<>>), Root(<<Nm(ka)>>))),
           Flt(Cmp("==", Pa, Lit(N1))), Flt(Cmp("!=", Pa, Lit(Null))), Flt(Cmp("<", Pa, Lit(N2))), Flt(Cmp(">=", Root(<<Nm(ka)>>), Pa)),
           Flt(Re(Pa, "^.*$")), Flt(Exist(Cur(<<Nm(ka), Nm(ka)>>))), Flt(Exist(Cur(<<Nm(ka), Wild>>))),
           Flt(Cmp("<", Pa, Root(<<Nm(kb)>>))), Flt(Cmp("==", Root(<<Nm(kb)>>), Pa)) }
FSeqs == { <<FF(Fn_f1)>>, <<AF(Fn_g1)>>, <<FF(Fn_fid), AF(Fn_g2)>> }

VARIABLES ty, doc, steps, funcs, n
vars == <<ty, doc, steps, funcs, n>>
Init == ty \in (IF TypeSet = "all" THEN LeafTypes ELSE IF TypeSet = "containers" THEN {3, 6, 7} ELSE {0, 1, 6, 13, 15, 21, 22}) /\ doc = Null /\ steps = <<>> /\ funcs = <<>> /\ n = 0
Next == \/ doc = Null /\ doc' \in DocsOf(ty) /\ UNCHANGED <<ty, steps, funcs, n>>
        \/ /\ doc # Null /\ funcs = <<>> /\ UNCHANGED <<ty, doc>>
           /\ \/ /\ n < MaxLen /\ n' = n + 1 /\ UNCHANGED funcs
                 /\ \/ \E s \in Sigma : steps' = Append(steps, s)
                    \/ \E s \in Sigma : steps' = steps \o <<Rec, s>>
              \/ /\ n = 1 /\ UNCHANGED <<steps, n>> /\ \E fs \in FSeqs : funcs' = fs
Spec == Init /\ [][Next]_vars

ThePath == Path("$", steps, funcs)
\* no rule of the reference semantics consults an opaque payload: replacing every opaque leaf by a
\* fresh unequal one of another type changes nothing but the leaves themselves (checked on the response shape)
LawFailsIffEmpty == doc # Null => FailsIffEmpty(ThePath, doc)
Emit == doc # Null => EmitCase(Case("sel", ThePath, doc, <<Canon>>))
=============================================================================
