--------------------------- MODULE FilterProtoHist ---------------------------
(* C05 (and the sequential half of C06) for the literal cells of a parsed       *)
(* tree: ONE parsed filter is evaluated on a sequence of documents and the heap *)
(* of list cells persists between the calls (the CALLER cell is the new         *)
(* document's array, everything the tree owns stays).  Every call must decode   *)
(* to {m : Holds(q, m)} for ITS document: with the literal handed out by        *)
(* reference (AsCoded = TRUE) a call on a document where the comparison is      *)
(* false blanks the literal and the next call is wrong -- TLC finds that        *)
(* two-call history; with the repaired mechanisms both invariants hold.         *)
EXTENDS FilterProtoOps
CONSTANT MaxCalls

Vals == {ABSENT, Num(1), Num(2)}
Mems == [a : Vals, b : {ABSENT}]
Roots == [x : {ABSENT, Num(1), Num(2)}, y : {ABSENT}]
Lit1 == [k |-> "lit", id |-> 1, v |-> Num(1)]
Lit2 == [k |-> "lit", id |-> 2, v |-> Num(2)]
Ops == {Lit1, Lit2, [k |-> "cur", f |-> "a"], [k |-> "root", f |-> "x"], [k |-> "root", f |-> "y"]}
TwoCur(l, r) == l.k = "cur" /\ r.k = "cur"
Atoms == {[k |-> "exist", p |-> o] : o \in {o \in Ops : o.k # "lit"}}
         \cup {[k |-> "cmp", op |-> "==", l |-> pr[1], r |-> pr[2]] : pr \in {pp \in Ops \X Ops : ~TwoCur(pp[1], pp[2])}}
         \cup {[k |-> "cmp", op |-> "<", l |-> l, r |-> r] : l \in {o \in Ops : o.k = "cur"}, r \in {o \in Ops : o.k # "cur"}}
Queries == Atoms \cup {[k |-> "not", q |-> a] : a \in Atoms}

VARIABLES q, H, n, lastSel, lastMems, lastRoot
vars == <<q, H, n, lastSel, lastMems, lastRoot>>
Heap0 == [c |-> (CALLER :> <<>>) @@ (EMPTYL :> <<EMPTY>>) @@ (FULLL :> <<TRUEV>>) @@ (LIT(1) :> <<Num(1)>>) @@ (LIT(2) :> <<Num(2)>>),
          nx |-> 10, w |-> {}]
Init == q \in Queries /\ H = Heap0 /\ n = 0 /\ lastSel = {} /\ lastMems = <<>> /\ lastRoot = [x |-> ABSENT, y |-> ABSENT]
\* one call: the filter node receives the caller's array as CALLER; cells allocated by earlier calls are garbage
Call(mems, root) ==
  LET Hc == [c |-> (CALLER :> [i \in 1..Len(mems) |-> V("member", i)]) @@ (EMPTYL :> H.c[EMPTYL]) @@ (FULLL :> H.c[FULLL])
                   @@ (LIT(1) :> H.c[LIT(1)]) @@ (LIT(2) :> H.c[LIT(2)]), nx |-> 10, w |-> H.w]
      r == Compute(q, Hc, CALLER, mems, root, <<>>) IN
  /\ H' = r.H
  /\ lastSel' = Selected(r.H, r.out, Len(mems))
  /\ lastMems' = mems /\ lastRoot' = root
Next == n < MaxCalls /\ n' = n + 1 /\ q' = q
        /\ \E root \in Roots, mems \in UNION {[1..k -> Mems] : k \in 1..2} : Call(mems, root)
Spec == Init /\ [][Next]_vars

NoProtectedWrite == H.w \cap Protected = {}
\* tree-owned and package-level cells keep their contents for ever (TreeImmutable)
TreeImmutable == H.c[LIT(1)] = <<Num(1)>> /\ H.c[LIT(2)] = <<Num(2)>> /\ H.c[EMPTYL] = <<EMPTY>> /\ H.c[FULLL] = <<TRUEV>>
\* every call, whatever came before, selects what Holds says for its own document
CallIsPure == (n > 0 /\ Det(q, lastMems, lastRoot)) => lastSel = {i \in 1..Len(lastMems) : Holds(q, lastMems[i], lastRoot)}
=============================================================================
