-------------------------------- MODULE Mech --------------------------------
(* L2: the retrieval mechanism -- how the chain of syntax nodes walks a       *)
(* document and how it picks the ONE error it reports -- written the way the  *)
(* code does it, to be checked against the L1 definition (Semantics):         *)
(*                                                                            *)
(*  * one result container is shared by the whole walk; a multi-valued node   *)
(*    records the error of a failing branch only while that container is      *)
(*    still empty, and reports success as soon as it is not;                  *)
(*  * the recorded error is chosen by addDeepestError: the failing node with  *)
(*    the SHORTEST remaining path text wins (deeper in the path), and at      *)
(*    equal length a type mismatch gives way to whatever comes later;         *)
(*  * recursive descent is an explicit stack: pop a container, apply the next *)
(*    step to it if it is of a kind that step navigates, push its container   *)
(*    children in REVERSE order (objects by descending key).                  *)
(*                                                                            *)
(* Refines(steps, doc): same values in the same order as L1 Select, and when  *)
(* nothing is selected the reported error is one of L1's admissible ones.     *)
(* InnerTextMissing = TRUE is the pinned tree's mechanism (the `*` member of  *)
(* a multi selector has no remaining-path text, length 0 = "nothing recorded  *)
(* yet"): TLC then finds the C15 counterexample.                              *)
EXTENDS Render
CONSTANT InnerTextMissing

NoErr == [e |-> "none", i |-> 0, tl |-> 0, exp |-> "", found |-> <<>>]
MErr(i, e, tl, exp, x) == [e |-> e, i |-> i, tl |-> tl, exp |-> exp, found |-> x]
MR(vals, err) == [vals |-> vals, err |-> err]

\* remaining path text length from step i on (what getConnectedText() returns for the node of step i)
ItemText(items, i) == IF items[i].k \in {"ff", "af"} THEN FuncText(items[i]) ELSE StepText(items[i], Ctx(items, i, "dot"), Canon)
RECURSIVE RemLen(_, _)
RemLen(items, i) == IF i > Len(items) THEN 0 ELSE Len(ItemText(items, i)) + RemLen(items, i + 1)

\* addDeepestError
Deeper(new, dl, cur) ==
  IF dl = 0 \/ dl > new.tl THEN [dl |-> new.tl, err |-> new]
  ELSE IF dl = new.tl /\ cur.e = "tu" THEN [dl |-> dl, err |-> new]
  ELSE [dl |-> dl, err |-> cur]

RECURSIVE Walk(_, _, _, _, _, _), Loop(_, _, _, _, _, _, _, _), RecLoop(_, _, _, _, _, _, _, _), Chain(_, _, _, _, _)

\* acc: number of results already in the shared container when this node starts
\* the tail of a multi-valued node: success if the container is non-empty, else the recorded or its own error
Finish(steps, i, vals, acc, dl, de) ==
  IF acc + Len(vals) > 0 THEN MR(vals, NoErr)
  ELSE IF de.e = "none" THEN MR(vals, MErr(i, "mne", RemLen(steps, i), "", <<>>))
  ELSE MR(vals, de)

\* apply steps[i+1..] to each branch value in order, recording errors while the container is empty
Loop(steps, i, end, root, branches, k, acc, st) ==
  IF k > Len(branches) THEN st
  ELSE LET r == Walk(steps, i + 1, end, root, branches[k], acc + Len(st.vals))
           vals == st.vals \o r.vals
           d == IF r.err.e # "none" /\ acc + Len(vals) = 0 THEN Deeper(r.err, st.dl, st.de) ELSE [dl |-> st.dl, err |-> st.de] IN
       Loop(steps, i, end, root, branches, k + 1, acc, [vals |-> vals, dl |-> d.dl, de |-> d.err])
St0 == [vals |-> <<>>, dl |-> 0, de |-> NoErr]

\* the explicit stack of syntaxRecursiveChildIdentifier.retrieve
RecLoop(steps, i, end, root, stack, acc, st, nx) ==
  IF stack = <<>> THEN st
  ELSE LET node == stack[Len(stack)]
           rest == SubSeq(stack, 1, Len(stack) - 1)
           applies == (IsObj(node) /\ RecMap(nx)) \/ (IsArr(node) /\ RecList(nx))
           r == IF applies THEN Walk(steps, i + 1, end, root, node, acc + Len(st.vals)) ELSE MR(<<>>, NoErr)
           vals == st.vals \o r.vals
           d == IF r.err.e # "none" /\ acc + Len(vals) = 0 THEN Deeper(r.err, st.dl, st.de) ELSE [dl |-> st.dl, err |-> st.de]
           kids == SelectSeq(Kids(node), IsCont)
           rev == [j \in 1..Len(kids) |-> kids[Len(kids) - j + 1]] IN
       RecLoop(steps, i, end, root, rest \o rev, acc, [vals |-> vals, dl |-> d.dl, de |-> d.err], nx)

Walk(steps, i, end, root, cur, acc) ==
  IF i > end THEN MR(<<cur>>, NoErr)
  ELSE LET s == steps[i]
           tl == RemLen(steps, i)
           fin(st) == Finish(steps, i, st.vals, acc, st.dl, st.de) IN
  CASE s.k = "name" ->
         IF ~IsObj(cur) THEN MR(<<>>, MErr(i, "tu", tl, "object", FoundOf(cur)))
         ELSE IF ~HasKey(cur, s.n) THEN MR(<<>>, MErr(i, "mne", tl, "", <<>>))
         ELSE Walk(steps, i + 1, end, root, GetKey(cur, s.n), acc)
    [] s.k = "wild" ->
         IF ~IsCont(cur) THEN MR(<<>>, MErr(i, "tu", tl, "object/array", FoundOf(cur)))
         ELSE fin(Loop(steps, i, end, root, Kids(cur), 1, acc, St0))
    [] s.k = "union" ->
         IF ~IsArr(cur) THEN MR(<<>>, MErr(i, "tu", tl, "array", FoundOf(cur)))
         ELSE LET idxs == Flat(Map(LAMBDA sub : SubIdx(sub, Len(cur.a)), s.subs)) IN
              fin(Loop(steps, i, end, root, [j \in 1..Len(idxs) |-> cur.a[idxs[j] + 1]], 1, acc, St0))
    [] s.k = "filter" ->
         IF ~IsCont(cur) THEN MR(<<>>, MErr(i, "tu", tl, "object/array", FoundOf(cur)))
         ELSE fin(Loop(steps, i, end, root, SelectSeq(Kids(cur), LAMBDA m : Holds(s.q, root, m)), 1, acc, St0))
    [] s.k = "multi" ->
         LET allw == \A j \in 1..Len(s.ids) : s.ids[j].k = "wild" IN
         IF allw /\ IsArr(cur) THEN      \* switches to a union of wildcards
              fin(Loop(steps, i, end, root, Flat([j \in 1..Len(s.ids) |-> cur.a]), 1, acc, St0))
         ELSE IF ~IsObj(cur) THEN MR(<<>>, MErr(i, "tu", tl, "object", FoundOf(cur)))
         ELSE \* each identifier in written order; a `*` member is a wildcard node of its own, whose own
              \* "nothing matched" error carries ITS remaining-path text
              LET RECURSIVE Ids(_, _)
                  Ids(j, st) ==
                    IF j > Len(s.ids) THEN st
                    ELSE LET id == s.ids[j]
                             sub == IF id.k = "wild" THEN
                                       (LET inner == Loop(steps, i, end, root, Kids(cur), 1, acc + Len(st.vals), St0) IN
                                        Finish(steps, i, inner.vals, acc + Len(st.vals), inner.dl,
                                               IF inner.de.e = "none" /\ acc + Len(st.vals) + Len(inner.vals) = 0
                                               THEN MErr(i, "mne", IF InnerTextMissing THEN 0 ELSE tl, "", <<>>) ELSE inner.de))
                                    ELSE IF HasKey(cur, id.n) THEN Walk(steps, i + 1, end, root, GetKey(cur, id.n), acc + Len(st.vals))
                                    ELSE MR(<<>>, NoErr)
                             vals == st.vals \o sub.vals
                             d == IF sub.err.e # "none" /\ acc + Len(vals) = 0 THEN Deeper(sub.err, st.dl, st.de) ELSE [dl |-> st.dl, err |-> st.de] IN
                         Ids(j + 1, [vals |-> vals, dl |-> d.dl, de |-> d.err])
              IN fin(Ids(1, St0))
    [] s.k = "rec" ->
         IF ~IsCont(cur) THEN MR(<<>>, MErr(i, "tu", tl, "object/array", FoundOf(cur)))
         ELSE LET st == RecLoop(steps, i, end, root, <<cur>>, acc, St0, steps[i + 1]) IN fin(st)
    [] s.k = "ff" ->     \* a filter function is a node of the chain: every value flows through it on its way down
         LET r == ApplyFF(s.n, cur) IN
         IF ~r.ok THEN MR(<<>>, MErr(i, "ff", tl, "", <<>>)) ELSE Walk(steps, i + 1, end, root, r.v, acc)

\* An aggregate function is the ROOT of the chain in front of it: that chain runs into a container of its
\* own (so "is the container still empty?" is asked about that private container), its values -- or the
\* elements of the one array a single-valued chain selected -- are handed to the function, and the function's
\* result continues down the rest of the chain with the outer container.
LastAf(items, end) == IF \E j \in 1..end : items[j].k = "af" THEN CHOOSE j \in 1..end : items[j].k = "af" /\ \A k \in (j + 1)..end : items[k].k # "af" ELSE 0
ChainVG(items, end) == (~\E j \in 1..end : items[j].k = "af") /\ \E j \in 1..end : items[j].k \notin {"ff", "af"} /\ StepVG(items[j])
Chain(items, end, root, cur, acc) ==
  LET a == LastAf(items, end) IN
  IF a = 0 THEN Walk(items, 1, end, root, cur, acc)
  ELSE LET p == Chain(items, a - 1, root, cur, 0) IN
       IF p.vals = <<>> THEN MR(<<>>, p.err)
       ELSE LET arg == IF ~ChainVG(items, a - 1) /\ p.vals[1].t = "arr" THEN p.vals[1].a ELSE p.vals
                r == ApplyAF(items[a].n, arg) IN
            IF ~r.ok THEN MR(<<>>, MErr(a, "ff", RemLen(items, a), "", <<>>))
            ELSE Walk(items, a + 1, end, root, r.v, acc)

MechResult(p, doc) == LET items == p.steps \o p.funcs IN Chain(items, Len(items), doc, doc, 0)

\* ---------------------------------------------------------------- refinement of L1
Refines(p, doc) ==
  LET m == MechResult(p, doc)
      l == RunPath(p, doc, doc, <<>>)
      lv == [j \in 1..Len(l.vals) |-> l.vals[j].v] IN
  /\ m.vals = lv
  /\ (lv = <<>>) => \E e \in Best(l.errs) : e.i = m.err.i /\ e.e = m.err.e /\ (e.e = "tu" => e.exp = m.err.exp /\ e.found = m.err.found)
=============================================================================
