------------------------------ MODULE Actions ------------------------------
(* The 46 semantic actions of jsonpath.peg as a fold over the event list of *)
(* Peg!M, with the same pops and pushes as the Go actions, the saveParams / *)
(* loadParams stack of stacks and the text/begin/end registers.             *)
(*                                                                          *)
(* ParseModel(inp, cfg, tabs) is what Parse must do with a path given as    *)
(* code points: [cls |-> "ok", ast |-> ...] or the first typed panic        *)
(*   syntax(pos, why)  arg(text)  fnf(text)  nsup(text).                    *)
(* Stack values are AST fragments in the vocabulary of module Semantics,    *)
(* each step carrying `rt`, the text the library reports for it in errors.  *)
(*                                                                          *)
(* Go standard-library verdicts (strconv.Atoi / ParseFloat, regexp.Compile) *)
(* are not re-implemented: tabs.mode = "tables" takes them from side tables *)
(* recorded by the harness (direction B); tabs.mode = "model" uses the      *)
(* simple definitions below, valid for the enumerated alphabet, and every   *)
(* use is printed as an assumption that the harness confirms (direction A). *)
EXTENDS Peg, Render

Sub(inp, b, e) == SubSeq(inp, b + 1, e)         \* 0-based half-open [b,e)
BS == 92

\* ------------------------------------------------------------------ unescaping (the language each routine is meant to implement)
RECURSIVE UnDot(_)
\* regexp `\\(.)` -> `$1`; `.` does not match a line feed
UnDot(t) == IF t = <<>> THEN <<>>
            ELSE IF t[1] = BS /\ Len(t) >= 2 /\ t[2] # 10 THEN <<t[2]>> \o UnDot(SubSeq(t, 3, Len(t)))
            ELSE <<t[1]>> \o UnDot(Tail(t))
Hex(c) == IF c >= 48 /\ c <= 57 THEN c - 48 ELSE IF c >= 97 /\ c <= 102 THEN c - 87 ELSE c - 55
Hex4(t, i) == Hex(t[i]) * 4096 + Hex(t[i + 1]) * 256 + Hex(t[i + 2]) * 16 + Hex(t[i + 3])
IsHi(u) == u >= 55296 /\ u <= 56319
IsLo(u) == u >= 56320 /\ u <= 57343
RECURSIVE UnJson(_)
\* JSON string unescaping of a bracket name (the grammar already guarantees well-formed escapes);
\* <<-1>> marks a raw control character, which encoding/json rejects
UnJson(t) ==
  IF t = <<>> THEN <<>>
  ELSE IF t[1] < 32 THEN <<-1>>
  ELSE IF t[1] = BS THEN
     LET c == t[2] IN
     IF c = 117 THEN
        LET u == Hex4(t, 3) IN
        IF IsHi(u) /\ Len(t) >= 12 /\ t[7] = BS /\ t[8] = 117 /\ IsLo(Hex4(t, 9))
        THEN <<65536 + (u - 55296) * 1024 + (Hex4(t, 9) - 56320)>> \o UnJson(SubSeq(t, 13, Len(t)))
        ELSE IF IsHi(u) \/ IsLo(u) THEN <<65533>> \o UnJson(SubSeq(t, 7, Len(t)))
        ELSE <<u>> \o UnJson(SubSeq(t, 7, Len(t)))
     ELSE LET m == CASE c = 98 -> 8 [] c = 102 -> 12 [] c = 110 -> 10 [] c = 114 -> 13 [] c = 116 -> 9 [] OTHER -> c IN
          <<m>> \o UnJson(SubSeq(t, 3, Len(t)))
  ELSE <<t[1]>> \o UnJson(Tail(t))
Bad(u) == \E i \in 1..Len(u) : u[i] = -1

\* ------------------------------------------------------------------ numbers ("model" mode)
RECURSIVE StripZ(_), LexLE(_, _), DigVal(_, _)
StripZ(d) == IF Len(d) > 1 /\ d[1] = 48 THEN StripZ(Tail(d)) ELSE d
Lim63 == <<57,50,50,51,51,55,50,48,51,54,56,53,52,55,55,53,56,48,55>>   \* 9223372036854775807
LexLE(a, b) == IF a = <<>> THEN TRUE ELSE IF a[1] < b[1] THEN TRUE ELSE IF a[1] > b[1] THEN FALSE ELSE LexLE(Tail(a), Tail(b))
\* strconv.Atoi on [-+]?[0-9]+ : in the int64 range?
IntOKModel(t) == LET neg == t[1] = 45
                     d == StripZ(IF t[1] \in {43, 45} THEN Tail(t) ELSE t) IN
                 IF Len(d) < 19 THEN TRUE ELSE IF Len(d) > 19 THEN FALSE
                 ELSE IF neg THEN LexLE(d, [Lim63 EXCEPT ![19] = 56]) ELSE LexLE(d, Lim63)
DigVal(d, acc) == IF d = <<>> THEN acc ELSE IF acc > 2000000 THEN acc ELSE DigVal(Tail(d), acc * 10 + (d[1] - 48))
\* saturated integer value: the stand-ins of Render.tla for magnitudes beyond +-10^6
IntValModel(t) == LET neg == t[1] = 45
                      d == StripZ(IF t[1] \in {43, 45} THEN Tail(t) ELSE t)
                      v == DigVal(d, 0) IN
                  IF v > 1000000 THEN
                       (IF ~neg THEN (IF Len(d) >= 19 THEN BigP63 ELSE BigP31)
                        ELSE IF d = [Lim63 EXCEPT ![19] = 56] THEN BigM63 ELSE IF Len(d) >= 19 THEN BigM63a ELSE BigM31)
                  ELSE IF neg THEN 0 - v ELSE v
IsDigit(c) == c >= 48 /\ c <= 57
AllDigits(d) == \A i \in 1..Len(d) : IsDigit(d[i])
\* strconv.ParseFloat restricted to the characters [-+.0-9]:  sign? digits+ ( '.' digits* )?
FloatOKModel(t) ==
  LET u == IF t[1] \in {43, 45} THEN Tail(t) ELSE t
      dots == {i \in 1..Len(u) : u[i] = 46} IN
  /\ \A i \in 1..Len(u) : IsDigit(u[i]) \/ u[i] = 46
  /\ Cardinality(dots) <= 1
  /\ u # <<>> /\ IsDigit(u[1])
\* value times 1000, and whether three decimals are enough
FloatValModel(t) ==
  LET neg == t[1] = 45
      u == IF t[1] \in {43, 45} THEN Tail(t) ELSE t
      dot == IF \E i \in 1..Len(u) : u[i] = 46 THEN CHOOSE i \in 1..Len(u) : u[i] = 46 ELSE Len(u) + 1
      ip == SubSeq(u, 1, dot - 1)
      fp == StripTrail(SubSeq(u, dot + 1, Len(u)))
      f3 == fp \o [i \in 1..(3 - Len(fp)) |-> 48]
      v == DigVal(ip, 0) * 1000 + (IF Len(fp) <= 3 THEN DigVal(f3, 0) ELSE 0) IN
  [v |-> IF neg THEN 0 - v ELSE v, exact |-> Len(fp) <= 3 /\ DigVal(ip, 0) < 2000000]
\* regexp.Compile on the regex texts of the enumerated alphabet
RegexOKModel(t) == /\ ~\E i \in 1..Len(t) : t[i] \in {40, 41, 91, 93, 123, 125, 92}
                   /\ (t = <<>> \/ t[1] \notin {42, 43, 63})
                   /\ ~\E i \in 1..(Len(t) - 1) : t[i] \in {42, 43} /\ t[i + 1] \in {42, 43}
ReIdModel(t) == CASE t = <<97>> -> "a" [] t = <<94, 97, 36>> -> "^a$" [] t = <<94, 46, 42, 36>> -> "^.*$" [] t = <<98, 43>> -> "b+" [] OTHER -> "?"

\* side tables: tabs.nums = <<[b, e, iok, fok, fv, fexact, iv]>> keyed by capture span; tabs.res = <<[b, e, ok, strs, ms]>>
TabNum(tabs, b, e) == LET i == CHOOSE i \in 1..Len(tabs.nums) : tabs.nums[i].b = b /\ tabs.nums[i].e = e IN tabs.nums[i]
TabRe(tabs, b, e) == LET i == CHOOSE i \in 1..Len(tabs.res) : tabs.res[i].b = b /\ tabs.res[i].e = e IN tabs.res[i]
IntOK(tabs, t, b, e)   == IF tabs.mode = "model" THEN IntOKModel(t) ELSE TabNum(tabs, b, e).iok
IntVal(tabs, t, b, e)  == IF tabs.mode = "model" THEN IntValModel(t) ELSE TabNum(tabs, b, e).iv
FloatOK(tabs, t, b, e) == IF tabs.mode = "model" THEN FloatOKModel(t) ELSE TabNum(tabs, b, e).fok
FloatV(tabs, t, b, e)  == IF tabs.mode = "model" THEN FloatValModel(t) ELSE [v |-> TabNum(tabs, b, e).fv, exact |-> TabNum(tabs, b, e).fexact]
RegexOK(tabs, t, b, e) == IF tabs.mode = "model" THEN RegexOKModel(t) ELSE TabRe(tabs, b, e).ok

\* ------------------------------------------------------------------ the fold
\* state: st (value stack), sl (saved stacks), tb/te (capture registers), done, out, asm (assumptions used)
Top(S) == S.st[Len(S.st)]
Nth(S, n) == S.st[Len(S.st) - n + 1]       \* n-th from the top (1 = top)
PopN(S, n) == [S EXCEPT !.st = SubSeq(S.st, 1, Len(S.st) - n)]
Push(S, x) == [S EXCEPT !.st = Append(S.st, x)]
Have(S, n) == Len(S.st) >= n
ErrOut(S, cls, pos, why, text) == [S EXCEPT !.done = TRUE, !.out = [cls |-> cls, pos |-> pos, why |-> why, text |-> text]]
BadCast(S, a) == ErrOut(S, "badcast", 0, "action", <<a>>)
Assume(S, kind, t, ok) == [S EXCEPT !.asm = Append(S.asm, [kind |-> kind, text |-> t, ok |-> ok])]

NodeKinds == {"root", "cur", "name", "wild", "multi", "recn", "union", "filter", "ff", "af"}
StepKinds == {"name", "wild", "multi", "recn", "union", "filter"}
IsNode(x) == x.k \in NodeKinds
QueryKinds == {"exist", "not", "and", "or", "paren", "cmp", "re", "ret"}
WithRt(x, t) == [k \in (DOMAIN x) \cup {"rt"} |-> IF k = "rt" THEN t ELSE x[k]]

\* chain the nodes of one jsonpath / jsonpathParameter into a path fragment
RECURSIVE FlatSteps(_)
FlatSteps(items) ==
  IF items = <<>> THEN <<>>
  ELSE IF items[1].k = "recn" THEN <<[k |-> "rec", rt |-> <<46, 46>>], items[1].nx>> \o FlatSteps(Tail(items))
  ELSE <<items[1]>> \o FlatSteps(Tail(items))
MkPath(items) ==
  LET first == items[1]
      rootk == IF first.k = "root" THEN "$" ELSE IF first.k = "cur" THEN "@" ELSE "bare"
      rest == IF rootk = "bare" THEN items ELSE Tail(items)
      steps == SelectSeq(rest, LAMBDA x : x.k \in StepKinds)
      funcs == SelectSeq(rest, LAMBDA x : x.k \in {"ff", "af"}) IN
  [k |-> "pnode", root |-> rootk, steps |-> FlatSteps(steps), funcs |-> funcs]
PNodeVG(p) == (\E i \in 1..Len(p.steps) : StepVG(p.steps[i])) /\ ~\E i \in 1..Len(p.funcs) : p.funcs[i].k = "af"

IsCurOperand(o) == o.k = "path" /\ o.root = "@"

Act(S, ev, inp, cfg, tabs) ==
  LET a == ev.a  text == Sub(inp, S.tb, S.te) IN
  CASE a = -1 -> [S EXCEPT !.tb = ev.b, !.te = ev.e]
    [] a = 0  -> IF Have(S, 1) /\ Top(S).k = "pnode" THEN [S EXCEPT !.done = TRUE, !.out = [cls |-> "ok", pos |-> 0, why |-> "", text |-> <<>>, ast |-> Top(S)]]
                 ELSE BadCast(S, a)
    [] a = 1  -> ErrOut(S, "syntax", S.tb, "unrecognized input", <<>>)
    [] a = 2  -> IF Have(S, 1) /\ \A i \in 1..Len(S.st) : IsNode(S.st[i]) THEN [S EXCEPT !.st = << MkPath(S.st) >>]
                 ELSE BadCast(S, a)
    [] a = 3  -> IF Have(S, 1) /\ Top(S).k \in StepKinds THEN Push(PopN(S, 1), [k |-> "recn", nx |-> Top(S)]) ELSE BadCast(S, a)
    [] a \in {4, 7} -> IF Have(S, 1) /\ IsNode(Top(S)) THEN Push(PopN(S, 1), WithRt(Top(S), text)) ELSE BadCast(S, a)
    [] a = 5  -> IF ~(Have(S, 1) /\ Top(S).k = "text") THEN BadCast(S, a)
                 ELSE LET nm == Top(S).cps IN
                 IF \E i \in 1..Len(cfg.ff) : cfg.ff[i] = nm THEN Push(PopN(S, 1), [k |-> "ff", n |-> nm, rt |-> text])
                 ELSE IF \E i \in 1..Len(cfg.af) : cfg.af[i] = nm THEN Push(PopN(S, 1), [k |-> "af", n |-> nm, rt |-> text])
                 ELSE ErrOut(S, "fnf", S.tb, "", text)
    [] a = 6  -> Push(S, [k |-> "text", cps |-> text])
    [] a = 8  -> Push(S, [k |-> "root", rt |-> <<36>>])
    [] a = 9  -> Push(S, [k |-> "cur", rt |-> <<64>>])
    [] a = 10 -> Push(S, [k |-> "name", n |-> UnDot(text), rt |-> UnDot(text)])
    [] a = 11 -> IF ~Have(S, 2) THEN BadCast(S, a) ELSE
                 LET i2 == Nth(S, 1)  i1 == Nth(S, 2) IN
                 IF i1.k = "multi" THEN Push(PopN(S, 2), [k |-> "multi", ids |-> Append(i1.ids, i2), rt |-> <<>>])
                 ELSE Push(PopN(S, 2), [k |-> "multi", ids |-> <<i1, i2>>, rt |-> <<>>])
    [] a = 12 -> Push(S, [k |-> "wild", rt |-> <<42>>])
    [] a \in {13, 14} -> LET u == UnJson(text) IN
                 IF Bad(u) THEN ErrOut(S, "arg", S.tb, "", text) ELSE Push(S, [k |-> "name", n |-> u, rt |-> u])
    [] a = 15 -> IF ~(Have(S, 2) /\ Nth(S, 1).k = "union" /\ Nth(S, 2).k = "union") THEN BadCast(S, a)
                 ELSE Push(PopN(S, 2), [k |-> "union", subs |-> Nth(S, 2).subs \o Nth(S, 1).subs, rt |-> <<>>])
    [] a = 16 -> IF ~(Have(S, 3) /\ \A j \in 1..3 : Nth(S, j).k = "idx") THEN BadCast(S, a)
                 ELSE LET c == Nth(S, 1)  e == Nth(S, 2)  s == Nth(S, 3) IN
                      \* an omitted step is the step 1
                      Push(PopN(S, 3), Sl(s.n, s.om, e.n, e.om, IF c.om THEN 1 ELSE c.n, FALSE))
    [] a = 17 -> LET ok == IntOK(tabs, text, S.tb, S.te)  S1 == Assume(S, "int", text, ok) IN
                 IF ok THEN Push(S1, [k |-> "idx", n |-> IntVal(tabs, text, S.tb, S.te), om |-> FALSE]) ELSE ErrOut(S1, "arg", S.tb, "", text)
    [] a = 18 -> Push(S, Star)
    [] a = 19 -> IF ~(Have(S, 1) /\ Top(S).k \in {"idx", "slice", "star"}) THEN BadCast(S, a)
                 ELSE LET t == Top(S) IN
                      Push(PopN(S, 1), [k |-> "union", subs |-> <<IF t.k = "idx" THEN Idx(t.n) ELSE t>>, rt |-> <<>>])
    [] a = 20 -> Push(S, [k |-> "idx", n |-> 1, om |-> FALSE])
    [] a = 21 -> IF Len(text) > 0 THEN
                     (LET ok == IntOK(tabs, text, S.tb, S.te)  S1 == Assume(S, "int", text, ok) IN
                      IF ok THEN Push(S1, [k |-> "idx", n |-> IntVal(tabs, text, S.tb, S.te), om |-> FALSE]) ELSE ErrOut(S1, "arg", S.tb, "", text))
                 ELSE Push(S, [k |-> "idx", n |-> 0, om |-> TRUE])
    [] a = 22 -> ErrOut(S, "nsup", S.tb, "script", <<91, 40>> \o text \o <<41, 93>>)
    [] a = 23 -> IF Have(S, 1) /\ Top(S).k \in QueryKinds THEN Push(PopN(S, 1), [k |-> "filter", q |-> Top(S), rt |-> <<>>]) ELSE BadCast(S, a)
    [] a \in {24, 25} -> IF ~(Have(S, 2) /\ Nth(S, 1).k \in QueryKinds /\ Nth(S, 2).k \in QueryKinds) THEN BadCast(S, a)
                 ELSE Push(PopN(S, 2), [k |-> IF a = 24 THEN "or" ELSE "and", l |-> Nth(S, 2), r |-> Nth(S, 1)])
    [] a = 26 -> IF ~Have(S, 1) THEN BadCast(S, a) ELSE
                 LET q == Top(S) IN
                 IF q.k = "cmp" /\ IsCurOperand(q.l) /\ IsCurOperand(q.r)
                 THEN ErrOut(S, "syntax", S.tb, "comparison between two current nodes is prohibited", <<>>) ELSE S
    [] a = 27 -> IF ~(Have(S, 2) /\ Nth(S, 1).k = "flag" /\ Nth(S, 2).k = "path") THEN BadCast(S, a)
                 ELSE IF text[1] = 33 THEN Push(PopN(S, 2), NotP(Nth(S, 2))) ELSE Push(PopN(S, 2), Exist(Nth(S, 2)))
    [] a \in 28..33 -> IF ~(Have(S, 2) /\ Nth(S, 1).k \in {"path", "lit"} /\ Nth(S, 2).k \in {"path", "lit"}) THEN BadCast(S, a) ELSE
                 LET op == CASE a = 28 -> "==" [] a = 29 -> "!=" [] a = 30 -> "<=" [] a = 31 -> "<" [] a = 32 -> ">=" [] a = 33 -> ">" IN
                 Push(PopN(S, 2), Cmp(op, Nth(S, 2), Nth(S, 1)))
    [] a = 34 -> IF ~(Have(S, 1) /\ Top(S).k = "path") THEN BadCast(S, a) ELSE
                 LET ok == RegexOK(tabs, text, S.tb, S.te)  S1 == Assume(S, "regex", text, ok) IN
                 IF ~ok THEN ErrOut(S1, "arg", S.tb, "", text)
                 ELSE IF tabs.mode = "model" THEN Push(PopN(S1, 1), Re(Top(S), ReIdModel(text)))
                 ELSE Push(PopN(S1, 1), [k |-> "ret", l |-> Top(S), tab |-> TabRe(tabs, S.tb, S.te)])
    [] a \in {35, 36} -> IF Have(S, 1) /\ Top(S).k = "litv" THEN Push(PopN(S, 1), [k |-> "lit", v |-> Top(S).v, exact |-> Top(S).exact]) ELSE BadCast(S, a)
    [] a = 37 -> IF ~(Have(S, 2) /\ Nth(S, 1).k = "flag" /\ Nth(S, 2).k = "path") THEN BadCast(S, a)
                 ELSE IF PNodeVG(Nth(S, 2)) THEN ErrOut(S, "syntax", S.tb, "JSONPath that returns a value group is prohibited", <<>>)
                 ELSE PopN(S, 1)
    [] a = 38 -> IF Len(S.st) > 0 THEN [S EXCEPT !.sl = Append(S.sl, S.st), !.st = <<>>] ELSE S
    [] a = 39 -> LET S1 == IF Len(S.sl) > 0 THEN [S EXCEPT !.st = S.sl[Len(S.sl)] \o S.st, !.sl = SubSeq(S.sl, 1, Len(S.sl) - 1)] ELSE S IN
                 IF ~(Have(S1, 1) /\ Top(S1).k = "pnode" /\ Top(S1).root \in {"$", "@"}) THEN BadCast(S, a)
                 ELSE LET nd == Top(S1) IN
                      Push(Push(PopN(S1, 1), [k |-> "path", root |-> nd.root, steps |-> nd.steps, funcs |-> nd.funcs]),
                           [k |-> "flag", b |-> nd.root = "$"])
    [] a = 40 -> LET ok == FloatOK(tabs, text, S.tb, S.te)  S1 == Assume(S, "float", text, ok) IN
                 IF ok THEN (LET fv == FloatV(tabs, text, S.tb, S.te) IN Push(S1, [k |-> "litv", v |-> Num(fv.v), exact |-> fv.exact]))
                 ELSE ErrOut(S1, "arg", S.tb, "", text)
    [] a = 41 -> Push(S, [k |-> "litv", v |-> Bool(TRUE), exact |-> TRUE])
    [] a = 42 -> Push(S, [k |-> "litv", v |-> Bool(FALSE), exact |-> TRUE])
    [] a \in {43, 44} -> Push(S, [k |-> "litv", v |-> Str(UnDot(text)), exact |-> TRUE])
    [] a = 45 -> Push(S, [k |-> "litv", v |-> Null, exact |-> TRUE])
    [] OTHER -> BadCast(S, a)

RECURSIVE Fold(_, _, _, _, _, _)
Fold(S, evs, i, inp, cfg, tabs) ==
  IF i > Len(evs) \/ S.done THEN S ELSE Fold(Act(S, evs[i], inp, cfg, tabs), evs, i + 1, inp, cfg, tabs)

S0 == [st |-> <<>>, sl |-> <<>>, tb |-> 0, te |-> 0, done |-> FALSE, asm |-> <<>>,
       out |-> [cls |-> "noresult", pos |-> 0, why |-> "", text |-> <<>>]]
ParseFull(inp, cfg, tabs) == Fold(S0, Match(inp).ev, 1, inp, cfg, tabs)
ParseModel(inp, cfg, tabs) == ParseFull(inp, cfg, tabs).out
ModelTabs == [mode |-> "model"]
Documented == {"ok", "syntax", "arg", "fnf", "nsup"}
\* the action value stack discipline (C02): every pop finds a value of the sort the action casts to,
\* and exactly one documented outcome is produced
StackOK(inp, cfg, tabs) == ParseModel(inp, cfg, tabs).cls \in Documented

\* ------------------------------------------------------------------ from parser fragments to the AST of module Semantics
RECURSIVE CleanStep(_), CleanQ(_), CleanOp(_)
CleanFunc(f) == [k |-> f.k, n |-> f.n]
CleanSteps(ss) == [i \in 1..Len(ss) |-> CleanStep(ss[i])]
CleanStep(s) ==
  CASE s.k = "name" -> Nm(s.n)
    [] s.k = "wild" -> Wild
    [] s.k = "rec" -> Rec
    [] s.k = "multi" -> Multi([i \in 1..Len(s.ids) |-> IF s.ids[i].k = "wild" THEN Wild ELSE Nm(s.ids[i].n)])
    [] s.k = "union" -> Un(s.subs)
    [] s.k = "filter" -> Flt(CleanQ(s.q))
CleanOp(o) == IF o.k = "lit" THEN Lit(o.v)
              ELSE Path(o.root, CleanSteps(o.steps), [i \in 1..Len(o.funcs) |-> CleanFunc(o.funcs[i])])
CleanQ(q) ==
  CASE q.k \in {"exist", "not"} -> [k |-> q.k, p |-> CleanOp(q.p)]
    [] q.k \in {"and", "or"} -> [k |-> q.k, l |-> CleanQ(q.l), r |-> CleanQ(q.r)]
    [] q.k = "cmp" -> Cmp(q.op, CleanOp(q.l), CleanOp(q.r))
    [] q.k = "re" -> Re(CleanOp(q.l), q.re)
    [] q.k = "ret" -> [k |-> "ret", l |-> CleanOp(q.l), tab |-> q.tab]
\* top level: an omitted `$` is `$`
CleanPath(pn) == Path(IF pn.root = "@" THEN "@" ELSE "$", CleanSteps(pn.steps), [i \in 1..Len(pn.funcs) |-> CleanFunc(pn.funcs[i])])
ReportedTexts(pn) == [i \in 1..Len(pn.steps) |-> pn.steps[i].rt] \o [i \in 1..Len(pn.funcs) |-> pn.funcs[i].rt]

\* all literal numbers of the parsed path are exactly representable in the model (three decimals)?
RECURSIVE ExactQ(_), ExactSteps(_)
ExactOp(o) == IF o.k = "lit" THEN o.exact ELSE ExactSteps(o.steps)
ExactQ(q) ==
  CASE q.k \in {"exist", "not"} -> ExactOp(q.p)
    [] q.k \in {"and", "or"} -> ExactQ(q.l) /\ ExactQ(q.r)
    [] q.k = "cmp" -> ExactOp(q.l) /\ ExactOp(q.r)
    [] q.k \in {"re", "ret"} -> ExactOp(q.l)
ExactSteps(ss) == \A i \in 1..Len(ss) : ss[i].k = "filter" => ExactQ(ss[i].q)
=============================================================================
