------------------------------- MODULE Gen_Keys -------------------------------
(* C16: every member is addressable; dot and bracket notations agree.         *)
(* Keys are concatenations of up to MaxAtoms atoms from a class-representative *)
(* alphabet (one representative per character class of the grammar and of     *)
(* the JSON string syntax, plus escape-like sequences).  For every key the     *)
(* four spellings                                                             *)
(*    ['k'] and ["k"] with JSON-style escaping, ['\uXXXX...'] all escaped,     *)
(*    .k with every symbol character backslash-escaped (non-empty keys without *)
(*    control characters)                                                      *)
(* must parse (Peg over the generated grammar + Actions) to exactly name(k):   *)
(* that is Parse(Spell(k)) = k, hence distinct keys are never confused.        *)
EXTENDS Actions, Json, TLC
CONSTANTS MaxAtoms, Alphabet      \* "full" | "reduced" | "lengths" (one character repeated: every spelled length up to MaxAtoms)

AtomsFull == { <<97>>, <<48>>, <<45>>, <<95>>, <<32>>, <<39>>, <<34>>, <<92>>, <<47>>, <<46>>, <<42>>, <<40>>, <<41>>, <<91>>, <<93>>,
               <<36>>, <<64>>, <<44>>, <<58>>, <<110>>, <<117>>, <<0>>, <<10>>, <<31>>, <<127>>, <<128>>, <<233>>, <<65533>>, <<65535>>, <<65536>>,
               <<92, 110>>, <<92, 117, 48, 48, 52, 49>>, <<126>>, <<123>>,
               \* other planes and odd code points: U+0100 U+0800 U+4E2D U+1F600 U+E000 U+2028 U+200B U+FEFF U+D7FF U+10FFFF
               <<256>>, <<2048>>, <<20013>>, <<128512>>, <<57344>>, <<8232>>, <<8203>>, <<65279>>, <<55295>>, <<1114111>> }
AtomsReduced == { <<97>>, <<39>>, <<34>>, <<92>>, <<46>>, <<117>>, <<10>>, <<233>>, <<65536>>, <<92, 110>>, <<32>>, <<65533>> }
Atoms == IF Alphabet = "full" THEN AtomsFull ELSE IF Alphabet = "lengths" THEN {<<97>>, <<233>>, <<39>>} ELSE AtomsReduced

VARIABLES atoms
Init == atoms = <<>>
Next == Len(atoms) < MaxAtoms /\ \E a \in Atoms : (Alphabet = "lengths" /\ atoms # <<>> => a = atoms[1]) /\ atoms' = Append(atoms, a)
Spec == Init /\ [][Next]_atoms

Key == Flat(atoms)
\* every character as a \uXXXX escape (surrogate pair beyond the BMP)
EscAll(k, q) == <<q>> \o Flat([i \in 1..Len(k) |->
                   IF k[i] < 65536 THEN U4(k[i])
                   ELSE U4(55296 + ((k[i] - 65536) \div 1024)) \o U4(56320 + ((k[i] - 65536) % 1024))]) \o <<q>>
HasCtl(k) == \E i \in 1..Len(k) : k[i] < 32 \/ k[i] = 127
DotOK == Key # <<>> /\ ~HasCtl(Key)
Cfg0 == [ff |-> <<>>, af |-> <<>>]

SelSQ == <<91>> \o QuoteKey(Key, 39) \o <<93>>
SelDQ == <<91>> \o QuoteKey(Key, 34) \o <<93>>
SelEsc == <<91>> \o EscAll(Key, 39) \o <<93>>
SelDot == <<46>> \o DotKey(Key)

ParsesToKey(sel) == LET o == ParseModel(<<36>> \o sel, Cfg0, ModelTabs) IN
                    o.cls = "ok" /\ CleanPath(o.ast) = Path("$", <<Nm(Key)>>, <<>>)
\* The grammar is an INPUT of these laws (Grammar.tla is generated from the repository), so a law can fail because
\* the repository's grammar changed.  A failure is therefore printed (family "lawfail") instead of stopping TLC:
\* the case itself still goes to the real library, whose behaviour decides; a failed law without a deviation of
\* the real library is reported as a problem of the specification (exit 2).
LawFail(name, sel) == PrintT(ToJson([fam |-> "lawfail", law |-> name, s |-> <<36>> \o sel]))
LawBracket == /\ (ParsesToKey(SelSQ) \/ LawFail("bracket-single-quoted", SelSQ))
              /\ (ParsesToKey(SelDQ) \/ LawFail("bracket-double-quoted", SelDQ))
              /\ (ParsesToKey(SelEsc) \/ LawFail("bracket-all-escaped", SelEsc))
LawDot == DotOK => (ParsesToKey(SelDot) \/ LawFail("dot", SelDot))
\* after `..` the dot spelling has no leading dot
LawRecDot == DotOK => LET o == ParseModel(<<36, 46, 46>> \o DotKey(Key), Cfg0, ModelTabs) IN
                      (o.cls = "ok" /\ CleanPath(o.ast) = Path("$", <<Rec, Nm(Key)>>, <<>>)) \/ LawFail("dot-after-recursive-descent", <<46, 46>> \o DotKey(Key))

Emit == PrintT(ToJson([fam |-> "key", key |-> Key, sq |-> SelSQ, dq |-> SelDQ, esc |-> SelEsc,
                       dot |-> IF DotOK THEN DotKey(Key) ELSE <<>>, dotok |-> DotOK]))
=============================================================================
