------------------------------ MODULE Gen_Parse ------------------------------
(* C02 / C17 direction A: every string of up to MaxTok tokens over a token   *)
(* alphabet ("token soup") is parsed by the model (Peg over the generated    *)
(* Grammar + Actions) and printed with the outcome the specification         *)
(* demands; the harness parses the same string with the real library.        *)
(* Model invariants: exactly one documented outcome, stack discipline.       *)
EXTENDS Actions, Json, TLC
CONSTANTS MaxTok, Alphabet     \* Alphabet: "full" | "reduced"

TokFull == {
  <<36>>, <<64>>, <<46>>, <<46, 46>>, <<91>>, <<93>>, <<42>>, <<39, 97, 39>>, <<34, 97, 34>>, <<97>>, <<44>>, <<58>>,
  <<48>>, <<45, 49>>, <<63, 40>>, <<40>>, <<41>>, <<61, 61>>, <<33, 61>>, <<60>>, <<60, 61>>, <<62>>, <<62, 61>>,
  <<61, 126>>, <<47, 97, 47>>, <<38, 38>>, <<124, 124>>, <<33>>, <<49>>, <<39, 115, 39>>,
  <<116, 114, 117, 101>>, <<110, 117, 108, 108>>, <<46, 102, 49, 40, 41>>, <<46, 103, 49, 40, 41>>, <<46, 104, 40, 41>>,
  <<32>>, <<233>>, <<128512>>, <<92>>, <<47, 40, 47>> }
\* $ @ . .. [ ] * 'a' "a" a , : 0 -1 ?( ( ) == != < <= > >= =~ /a/ && || ! 1 's' true null .f1() .g1() .h() space e-acute emoji \ /(/
TokReduced == {
  <<36>>, <<64>>, <<46>>, <<46, 46>>, <<91>>, <<93>>, <<42>>, <<39, 97, 39>>, <<97>>, <<44>>, <<58>>,
  <<48>>, <<45, 49>>, <<63, 40>>, <<41>>, <<61, 61>>, <<60>>, <<38, 38>>, <<33>>, <<49>>, <<46, 103, 49, 40, 41>>, <<32>>, <<233>>, <<40>> }
Tok == IF Alphabet = "full" THEN TokFull ELSE TokReduced

Cfg == [ff |-> <<Fn_f1, Fn_f2>>, af |-> <<Fn_g1>>]

VARIABLES toks
Init == toks = <<>>
Next == Len(toks) < MaxTok /\ \E t \in Tok : toks' = Append(toks, t)
Spec == Init /\ [][Next]_toks

Inp == Flat(toks)
Full == ParseFull(Inp, Cfg, ModelTabs)
Outcome == Full.out

LawDocumented == Outcome.cls \in Documented
\* for unrecognised input the position is the end of the longest prefix rule `jsonpath` accepts
LawPrefix == (Outcome.cls = "syntax" /\ Outcome.why = "unrecognized input") => Outcome.pos = PrefixEnd(Inp)
LawPosInside == Outcome.cls = "syntax" => Outcome.pos >= 0 /\ Outcome.pos <= Len(Inp)

Emit == PrintT(ToJson([fam |-> "parse", s |-> Inp, cfg |-> Cfg,
                       out |-> [cls |-> Outcome.cls, pos |-> Outcome.pos, why |-> Outcome.why, text |-> Outcome.text],
                       asm |-> Full.asm]))
=============================================================================
